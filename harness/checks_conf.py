# Per-property configuration of the check driver: which harness units decide the
# property, with how many generated cases per tier.
#
# unit: kind = inpkg (pkg = algo|src|util|tui) | lib | proc
#       test = Go test function (a rapid.Check property unless noted)
#       quick / thorough = dict(checks=N, shards=K, cap=seconds[, race=True][, fuzz=seconds])


def U(kind, test, quick=None, thorough=None, pkg='', needs_fzf=False, env=None):
    return dict(kind=kind, pkg=pkg, test=test, quick=quick, thorough=thorough, needs_fzf=needs_fzf, env=env or {})


def q(checks=1, shards=1, cap=300, **kw):
    d = dict(checks=checks, shards=shards, cap=cap)
    d.update(kw)
    return d


CHECKS = {}

CHECKS['C02'] = dict(
    title='Every reported match has a genuine witness; non-match means none exists',
    rule='generated (matcher of 7, scheme, prepared term, line seeded with scattered/contiguous/near-miss copies of the term, '
         'direction, withPos, scratch-slab kind, bytes/runes representation); non-trivial = pattern non-empty and the folded line '
         'contains the first pattern character (the matcher gets past its pre-filter); distinct = distinct (matcher, case) keys',
    assumptions=[
        'patterns are prepared as real callers prepare them (lower-cased when case-insensitive, normalisation only for terms without normalisable letters)',
        'patterns longer than 1000 runes are only generated together with the production-size slab',
        'accent table snapshotted from the pinned tree (harness/oracle/normtable.go)',
    ],
    units=[
        U('inpkg', 'TestVerifC02_Regress', q(), q(), pkg='algo'),
        U('inpkg', 'TestVerifC02_Witness', q(160000, 16), q(3200000, 16, cap=1500), pkg='algo'),
        U('inpkg', 'TestVerifC02_Long', q(3200, 16), q(32000, 16, cap=1500), pkg='algo'),
        U('inpkg', 'FuzzVerifC02_Witness', None, q(fuzz=120), pkg='algo'),
        U('inpkg', 'TestVerifC02_WitnessInScope', q(32000, 16), q(640000, 16, cap=1500), pkg='src'),
        U('proc', 'TestVerifC02_ProcLongQuery', q(192, 16, cap=600), q(1600, 16, cap=2400), needs_fzf=True),
        U('inpkg', 'TestVerifC02_WitnessAcrossCancelledSearches', q(640, 16, cap=900), q(12800, 16, cap=3000, race=True), pkg='src'),
    ])

CHECKS['C03'] = dict(
    title='Scores follow the documented scoring model',
    rule='(i) exhaustive: all lines of length <= 5 (quick) / 6 (thorough) over {a,B,1,space,-,/,_} x all patterns of length 1..3 over {a,b,1} '
         'x 2 directions x 3 schemes, V2 vs unoptimised full-matrix DP, V1 vs greedy reference, both <= best explicit alignment, '
         'exact/prefix/suffix/equal vs score of the reported occurrence; (ii) random longer lines incl. non-ASCII with all slab kinds. '
         'non-trivial = the pattern has >= 2 distinct embeddings in the line (the optimisation has a choice)',
    assumptions=[
        'the documented recurrence is the one in the header comment and constants of src/algo/algo.go, re-stated independently in harness/oracle/score.go',
        'V2 is required to equal the full DP only when it is documented to run it (N*M within the scratch slab); otherwise the greedy reference applies',
    ],
    units=[
        U('inpkg', 'TestVerifC03_Regress', q(), q(), pkg='algo'),
        U('inpkg', 'TestVerifC03_Exhaustive', q(1, 16), q(1, 16, cap=1800), pkg='algo'),
        U('inpkg', 'TestVerifC03_Random', q(64000, 16), q(1600000, 16, cap=1800), pkg='algo'),
        U('inpkg', 'FuzzVerifC03_Random', None, q(fuzz=90), pkg='algo'),
        U('inpkg', 'TestVerifC03_BoundaryOrder', q(4000, 2), q(100000, 4), pkg='algo'),
    ])

CHECKS['C05'] = dict(
    title='Matching is a pure function of (line, query, options)',
    rule='metamorphic relations: same call with no slab / fresh / constant-filled / previously used slab; bytes vs runes; positions requested or not; '
         'sequences of calls on one slab; scheme initialisation histories. non-trivial = the line matches and a stale/dirty slab or both '
         'representations were compared; distinct = distinct (matcher, case) keys',
    assumptions=['known finding v2-start-without-positions is excluded by its classifier (exactly: V2, End and Score equal, Start = first occurrence of the first pattern character)'],
    units=[
        U('inpkg', 'TestVerifC05_Regress', q(), q(), pkg='algo'),
        U('inpkg', 'TestVerifC05_AlgoRelations', q(96000, 16), q(1600000, 16, cap=1800), pkg='algo'),
        U('inpkg', 'FuzzVerifC05_Relations', None, q(fuzz=90), pkg='algo'),
        U('inpkg', 'TestVerifC05_SlabSequence', q(16000, 8), q(320000, 16, cap=1800), pkg='algo'),
        U('inpkg', 'TestVerifC05_SlabLongLines', q(1600, 16), q(32000, 16, cap=1500), pkg='algo'),
        U('inpkg', 'TestVerifC05_SchemeHistory', q(8000, 4), q(160000, 8), pkg='algo'),
        U('inpkg', 'TestVerifC05_ItemCaches', q(32000, 16), q(640000, 16, cap=1500), pkg='src'),
        U('inpkg', 'TestVerifC05_ChunkCacheHistory', q(3200, 16), q(64000, 16, cap=1500), pkg='src'),
        U('inpkg', 'TestVerifC05_SameSearchAgain', q(1600, 16, cap=600), q(32000, 16, cap=1800), pkg='src'),
    ])

CHECKS['C01'] = dict(
    title='Filtering is exact: the lines shown are the lines satisfying the query',
    rule='query AST (1-4 AND groups x 1-3 OR alternatives x 6 term kinds x negation, bodies over an alphabet colliding with the lines) rendered with the documented operators '
         '(or a raw string with --no-extended) x --exact/-i/+i/--literal/--algo/--scheme/--tiebreak/--no-sort/--tac x 0-40 lines seeded from the term bodies; '
         'oracle = independent evaluator of the documented grammar; printed multiset must equal the expected one in both directions. '
         'non-trivial = (>=2 terms or a non-fuzzy/negated term) and both the match set and its complement are non-empty',
    assumptions=[
        'operator characters occur only in interior positions of a term body; queries contain no TAB/newline/backslash (undocumented readings are left to robustness checks)',
        'the rendered query is re-parsed by the oracle\'s own parser and must give back the AST (generator guard)',
    ],
    units=[
        U('lib', 'TestVerifC01_Regress', q(), q()),
        U('lib', 'TestVerifC01_LibFilter', q(48000, 16), q(960000, 16, cap=1800)),
        U('inpkg', 'TestVerifC01_QuerySequences', q(16000, 16), q(320000, 16, cap=1500), pkg='src'),
    ])

CHECKS['C04'] = dict(
    title='Results are the matched lines, each once, in rank order',
    rule='lists of 0..450 lines (0, 1, exactly one, several chunks) drawn from a pool of <=8-10 lines so that score and tiebreak collisions are the rule; '
         'oracle = stable global sort by (independent documented score, trimmed length, input index) resp. input order for --no-sort / empty / negation-only queries; '
         'non-trivial = >=2 results, a score tie, and more than one chunk',
    assumptions=['library-level order oracle restricted to queries whose score is defined by the documented model alone (positive fuzzy(v2)/prefix/suffix/equal terms) and tiebreaks length/index; '
                 'the other criteria are exercised by the in-package merger check and by the C05 sub-list relation'],
    units=[
        U('lib', 'TestVerifC04_Regress', q(), q()),
        U('lib', 'TestVerifC04_LibOrder', q(6400, 16), q(128000, 16, cap=1800)),
        U('lib', 'TestVerifC04_LibInputOrder', q(4800, 16), q(96000, 16, cap=1800)),
        U('inpkg', 'TestVerifC04_TiebreakMeaning', q(), q(), pkg='src'),
        U('inpkg', 'TestVerifC04_TiebreakKeys', q(48000, 16), q(960000, 16, cap=1800), pkg='src'),
        U('inpkg', 'TestVerifC04_ScanMerge', q(8000, 16), q(160000, 16, cap=1800), pkg='src'),
        U('inpkg', 'TestVerifC04_OrderAcrossQueryHistory', q(3200, 16, cap=600), q(64000, 16, cap=1800), pkg='src'),
    ])

CHECKS['C05']['units'] += [
    U('lib', 'TestVerifC05_LibSublist', q(4800, 16), q(96000, 16, cap=1800)),
    U('lib', 'TestVerifC05_LibRunHistory', q(3200, 16), q(64000, 16, cap=1800)),
]

CHECKS['C06'] = dict(
    title='Every input record becomes exactly one item, in order, unaltered',
    rule='(reader) byte streams of 0-14 records (lengths 0, 1, typical, and around 64 KiB / 128 KiB / 256 KiB; CR, NUL in LF mode, LF in NUL mode, multi-byte) x both delimiters x final terminator or not '
         'x read schedules (every byte, random cuts, cuts at/around every delimiter, 64 KiB blocks, interleaved (0,nil) reads): items == record-splitter model at push time and again after the stream ended; '
         '(chunk list) push / snapshot(tail) state machine against a list model incl. item numbering and frozen snapshots; '
         '(library) n in {0..350} numbered lines x --header-lines x --tail x query x six ways of running the filter. '
         'non-trivial = a record spans >= 2 reads or a delimiter is the first/last byte of a read (reader); header/tail active with more lines than the tail (library)',
    assumptions=['input sources behave like *os.File: (n>0,nil)* then (0,EOF)', 'identical content is asserted on bytes (no decoding involved at this level)'],
    units=[
        U('lib', 'TestVerifC0607_Regress', q(), q()),
        U('lib', 'TestVerifC06_LibHeaderTail', q(4800, 16), q(96000, 16, cap=1800)),
        U('inpkg', 'TestVerifC06_FeedSmall', q(32000, 16), q(640000, 16, cap=1800), pkg='src'),
        U('inpkg', 'TestVerifC06_FeedLarge', q(480, 16), q(9600, 16, cap=1800), pkg='src'),
        U('inpkg', 'TestVerifC06_ChunkListMachine', q(8000, 16), q(160000, 16, cap=1800), pkg='src'),
        U('proc', 'TestVerifC06_ProcHeaderTailReload', q(160, 16, cap=600), q(3200, 16, cap=2400), needs_fzf=True),
    ])

CHECKS['C07'] = dict(
    title='Output is the original line, framed and exit-coded as documented',
    rule='(library) lines over an alphabet with blanks/delimiters x --with-nth range lists x AWK/literal/regex delimiters x --print-query x six ways of running the filter; '
         '(process, filter mode) byte-exact stdout for records with leading/trailing blanks, empty and multi-line records, non-ASCII, SGR sequences x --read0/--print0/--ansi/--print-query/--with-nth/--tac/--sync; '
         '(process, interactive) selection histories ending in accept / abort / print-query / an --expect key, with --print0/--print-query/--expect/--accept-nth/--multi: stdout = query line, key line, then the selection in selection order (or the current line), exit status 0/1/130; '
         '--select-1/--exit-0 automatic exits. non-trivial = the searched text differs from the record or >= 2 framing options are combined and something is printed',
    assumptions=['with --ansi --with-nth only the printed records are asserted for non-empty queries (colour state carried across fields changes the searched text)'],
    units=[
        U('lib', 'TestVerifC0607_Regress', q(), q()),
        U('lib', 'TestVerifC07_LibOriginalLine', q(9600, 16), q(192000, 16, cap=1800)),
        U('proc', 'TestVerifC07_ProcFilter', q(4800, 16, cap=600), q(96000, 16, cap=2400), needs_fzf=True),
        U('proc', 'TestVerifC07_ProcInteractive', q(480, 16, cap=900), q(8000, 16, cap=3000), needs_fzf=True),
        U('proc', 'TestVerifC07_ProcSelect1Exit0', q(160, 8, cap=600), q(1600, 16, cap=2400), needs_fzf=True),
    ])

CHECKS['C10'] = dict(
    title='Field expressions select exactly the documented fields',
    rule='lines over {a,b,e-acute,CJK,space,tab,comma,semicolon,colon,x,1} with leading/trailing/consecutive delimiters x AWK / literal (1-2 chars) / regex delimiters (incl. one matching the empty string); '
         'exhaustive table of every range spelling with bounds in -4..4 x 0..5 fields; random range lists with bounds in -7..7; --nth matching with positions checked against the full line; real fzf sessions in which the expression in effect is changed with change-nth / transform-nth and put back (match set against the model after every step). '
         'non-trivial = >=3 fields, a negative or out-of-range bound, or a multi-byte first character',
    assumptions=[
        'observed convention adopted by the model where the documentation is silent: a literal delimiter yields a final empty field when the line ends with it, a regex delimiter does not',
        '--nth completeness (term matches inside a selected field => line matches) is asserted for terms without blanks/delimiter characters and for fuzzy/exact/boundary/prefix kinds',
    ],
    units=[
        U('inpkg', 'TestVerifC10_RangesExhaustive', q(), q(), pkg='src'),
        U('inpkg', 'TestVerifC10_Tokenize', q(160000, 16), q(3200000, 16, cap=1800), pkg='src'),
        U('inpkg', 'TestVerifC10_RangesRandom', q(80000, 16), q(1600000, 16, cap=1800), pkg='src'),
        U('inpkg', 'TestVerifC10_NthMatch', q(80000, 16), q(1600000, 16, cap=1800), pkg='src'),
        U('proc', 'TestVerifC10_ProcChangeNth', q(320, 16, cap=900), q(6400, 16, cap=3000), needs_fzf=True),
        U('proc', 'TestVerifC10_ProcAcceptNth', q(3200, 16, cap=600), q(64000, 16, cap=2400), needs_fzf=True),
        U('inpkg', 'FuzzVerifC10_Tokenize', None, q(fuzz=60), pkg='src'),
        U('inpkg', 'FuzzVerifC10_Ranges', None, q(fuzz=60), pkg='src'),
        U('inpkg', 'FuzzVerifC10_NthMatch', None, q(fuzz=60), pkg='src'),
    ])

CHECKS['C11'] = dict(
    title='--ansi strips escape sequences only and colours the right characters',
    rule='(i) arbitrary bytes biased to ESC [ ] ( ) \\\\ ; : ? digits m K BEL BS SO SI LF, multi-byte and invalid UTF-8, and fragment sequences with the edge characters of every class of the specification (0x1f 0x20 0x7e 0x7f 0x80, @ ` { /): stripped text == specification regex, spans well-formed; '
         '(ii) grammar: text chunks interleaved with well-formed SGR (16/256/24-bit colours, attributes, resets, several parameters), OSC-8 open/close (ST and BEL, URIs over all printable ASCII), other OSC sequences with printable payloads, other CSI/ESC/charset sequences, SO/SI, struck-out characters, '
         '1-3 consecutive lines carrying the state over: per-character (fg,bg,attr,url) == SGR interpreter; (iii) process level: 2-6 lines of words and basic foreground colours / resets, some lines of sequences only, fed to fzf --ansi in tmux; the foreground colour of every displayed character (capture-pane -e) equals the colour in force in the input, carried across lines. non-trivial = >=2 sequences and a text chunk after a sequence',
    assumptions=['the stripping specification is the regular expression quoted in src/ansi.go plus the hyperlink terminator ESC]8;;ESC emitted by fzf itself',
                 'only well-formed SGR parameters from the documented set are generated for the colouring equality (no empty sub-parameters, no mixed ; and : separators)'],
    units=[
        U('inpkg', 'TestVerifC11_Regress', q(), q(), pkg='src'),
        U('inpkg', 'TestVerifC11_ArbitraryBytes', q(320000, 16), q(4800000, 16, cap=1800), pkg='src'),
        U('inpkg', 'TestVerifC11_Grammar', q(160000, 16), q(2400000, 16, cap=1800), pkg='src'),
        U('inpkg', 'FuzzVerifC11_Bytes', None, q(fuzz=120), pkg='src'),
        U('inpkg', 'FuzzVerifC11_Grammar', None, q(fuzz=90), pkg='src'),
        U('proc', 'TestVerifC11_ProcColours', q(480, 16, cap=900), q(6400, 16, cap=3000), needs_fzf=True),
        U('proc', 'TestVerifC11_ProcPrinted', q(320, 16, cap=900), q(6400, 16, cap=3000), needs_fzf=True),
        U('lib', 'TestVerifC11_LibPrinted', q(16000, 16), q(320000, 16, cap=1500)),
    ])

CHECKS['C12'] = dict(
    title='Placeholders expand to shell words that evaluate back to the original text',
    rule='item texts / queries assembled from every shell metacharacter, newlines, command substitutions with a canary, leading dashes, non-ASCII; 0-4 selected items; templates of 1-6 placeholders out of '
         '{} {+} {q} {fzf:query} {fzf:prompt} {n} {+n} {N} {A..} {-N} {..} {N,M} {sN} {+N} {q:N} and escaped forms, AWK/literal/regex delimiters; the expansion is evaluated by /bin/sh (dash) and bash and argv is compared. '
         'non-trivial = some text contains one of quote, backslash, newline, dollar, backtick',
    assumptions=['fish/zsh are not installed: the fish escaper is checked against a model of fish single-quote syntax only', 'the raw flag {r} is excluded: it is documented to insert the text unquoted'],
    units=[
        U('inpkg', 'TestVerifC12_PlaceholderShell', q(4800, 16, cap=400), q(96000, 16, cap=1800), pkg='src'),
        U('inpkg', 'TestVerifC12_PlaceholderFile', q(4800, 4), q(64000, 8), pkg='src'),
        U('inpkg', 'TestVerifC12_FishModel', q(20000, 2), q(400000, 4), pkg='src'),
        U('inpkg', 'TestVerifC12_TmuxRequote', q(3200, 16, cap=400), q(64000, 16, cap=1800), pkg='src'),
        U('inpkg', 'TestVerifC12_TmuxRelaunch', q(1600, 16, cap=600), q(32000, 16, cap=1800), pkg='src'),
        U('inpkg', 'FuzzVerifC12_Tmux', None, q(fuzz=60), pkg='src'),
        U('proc', 'TestVerifC12_ProcPlusList', q(192, 16, cap=900), q(3200, 16, cap=3000), needs_fzf=True),
    ])

CHECKS['C18'] = dict(
    title='The query history file keeps the last N submitted queries in order',
    rule='state machine over 1-4 sessions (load, any number of previous/next/edit steps, at most one submit) on a real file; limits 1..5; initial files missing / empty / with and without trailing newline / '
         'surrounded by blank lines / longer than the limit; model = ordered list capped to N + per-session edit map. non-trivial = >=2 sessions, the cap was hit, an edited entry was revisited',
    assumptions=['initial files have no interior blank lines (fzf loads them as empty entries; the documentation is silent)', 'the cap is asserted after a submit, as the property words it'],
    units=[
        U('inpkg', 'TestVerifC18_HistorySessions', q(32000, 16), q(640000, 16, cap=1800), pkg='src'),
        U('inpkg', 'FuzzVerifC18_History', None, q(fuzz=60), pkg='src'),
        U('proc', 'TestVerifC18_ProcSessions', q(192, 16, cap=900), q(3200, 16, cap=3000), needs_fzf=True),
    ])

CHECKS['C17'] = dict(
    title='Any command line is either accepted as documented or rejected cleanly',
    rule='(i) bind AST: 1-4 key:action-list pairs, keys from the documented list incl. the escaped , : + forms, 26 argument-taking and 14 plain actions, arguments over an alphabet made of every delimiter character, + , : quotes newline, '
         '16 delimiter forms + trailing-colon form under the documented restriction: parsed keymap == AST, same AST through another delimiter form gives the same keymap, K:X then K:+Y == K:X+Y; '
         '(ii) argv of 0-6 tokens from the option vocabulary scraped from the usage text with valid/boundary/garbage values: error xor options, no panic, repeatable; '
         '(iii) last-wins for 36 valued options and, with context options, for the whole vocabulary; (iii-b) no residue: 17 probe command lines parse to the same configuration (deep snapshot following pointers) after generated parses as before the first one; (iv) file < env < argv layering equals the flat parse; (v) sub-parsers on hostile strings. '
         'non-trivial = an argument containing a delimiter/+/,/: or chained actions (bind), >=2 tokens (argv), two different values (last-wins)',
    assumptions=['--expect and --color are documented to accumulate and are excluded from last-wins', 'file-touching options get relative paths inside the per-run work directory'],
    units=[
        U('inpkg', 'TestVerifC17_BindRoundTrip', q(48000, 16), q(960000, 16, cap=1800), pkg='src'),
        U('inpkg', 'TestVerifC17_Totality', q(32000, 16), q(640000, 16, cap=1800), pkg='src'),
        U('inpkg', 'TestVerifC17_LastWins', q(16000, 16), q(320000, 16, cap=1800), pkg='src'),
        U('inpkg', 'TestVerifC17_LastWinsVocabulary', q(48000, 16), q(960000, 16, cap=1800), pkg='src'),
        U('inpkg', 'TestVerifC17_EnvPrecedence', q(8000, 8), q(160000, 16, cap=1800), pkg='src'),
        U('inpkg', 'TestVerifC17_SubParsers', q(64000, 16), q(1600000, 16, cap=1800), pkg='src'),
        U('inpkg', 'TestVerifC17_AdaptiveHeightRule', q(32000, 16), q(640000, 16, cap=1800), pkg='src'),
        U('inpkg', 'TestVerifC17_OptionalValueAttached', q(16000, 16), q(320000, 16, cap=1800), pkg='src'),
        U('inpkg', 'FuzzVerifC17_Argv', None, q(fuzz=120), pkg='src'),
        U('inpkg', 'FuzzVerifC17_Bind', None, q(fuzz=90), pkg='src'),
        U('inpkg', 'FuzzVerifC17_SubParsers', None, q(fuzz=60), pkg='src'),
        U('proc', 'TestVerifC17_ProcRejects', q(1600, 16, cap=600), q(32000, 16, cap=2400), needs_fzf=True),
    ])

CHECKS['C16'] = dict(
    title='The --listen endpoint is robust and enforces its access rules',
    rule='request grammar: method/target/version variants x header order/case/duplicates/decoys x key exact/padded/wrong/prefix/suffix/empty/absent x Content-Length exact/absent/0/short/long/>1MiB/non-numeric/negative '
         'x 20 action-list bodies (valid and invalid) x bare LF x body before headers x truncation at any byte x chunked delivery, then the client closes; plus arbitrary byte soups incl. 70 kB lines. '
         'oracle: answer well-formed; with a key configured no action and no state without the exact key; invalid/incomplete requests have no side effects; a valid POST delivers exactly the --bind parse of its body; GET delivers no action. '
         'non-trivial = a key is configured and the request reaches header parsing, or the request has a body',
    assumptions=['handler level: the request handler is driven over net.Pipe with a fake action channel and state handler; the live endpoint (TCP, liveness, unsafe actions on non-local listeners) is exercised by the process-level harness'],
    units=[
        U('inpkg', 'TestVerifC16_Regress', q(), q(), pkg='src'),
        U('inpkg', 'TestVerifC16_RequestGrammar', q(48000, 16), q(960000, 16, cap=1800), pkg='src'),
        U('inpkg', 'TestVerifC16_ArbitraryBytes', q(24000, 16), q(480000, 16, cap=1800), pkg='src'),
        U('inpkg', 'FuzzVerifC16_Bytes', None, q(fuzz=120), pkg='src'),
        U('inpkg', 'FuzzVerifC16_Grammar', None, q(fuzz=90), pkg='src'),
        U('inpkg', 'TestVerifC16_ListenAddress', q(2000, 1), q(20000, 1), pkg='src'),
        U('proc', 'TestVerifC16_ProcNonLocal', q(cap=300), q(cap=300), needs_fzf=True),
        U('proc', 'TestVerifC16_ProcPaddedKey', q(48, 16, cap=600), q(480, 16, cap=1800), needs_fzf=True),
        U('proc', 'TestVerifC16_ProcUnsafeFilter', q(320, 16, cap=600), q(1600, 16, cap=2400), needs_fzf=True),
        U('proc', 'TestVerifC16_ProcLive', q(160, 16, cap=900), q(3200, 16, cap=3000), needs_fzf=True),
        U('proc', 'TestVerifC16_ProcPostEqualsBind', q(96, 16, cap=900), q(1600, 16, cap=3000), needs_fzf=True),
    ])

CHECKS['C19'] = dict(
    title='The built-in walker lists exactly the files the walker options describe',
    rule='directory-tree AST (depth <= 4, <= 40 entries: files, empty dirs, hidden files/dirs, symlinks to files / dirs / parents (cycles) / root / dangling, names with spaces, newlines, leading dash, non-ASCII) materialised on disk '
         'x all 12 file/dir/follow/hidden combinations x 0-2 skip entries (base name, path, /suffix) x root given as . / relative / ./relative / trailing slash / absolute; oracle = walk model over the AST, compared as multisets. '
         'non-trivial = the tree has a hidden directory, a directory symlink and a skip hit',
    assumptions=['left open by the documentation and accepted either way: hidden files in visible directories when hidden is off, the own entry of a followed directory symlink, the own entry of a named root',
                 'a followed symlink is not descended when its target is the root or a directory on the way down (loop avoidance)'],
    units=[
        U('inpkg', 'TestVerifC19_Walker', q(3200, 16), q(48000, 16, cap=1800), pkg='src'),
        U('proc', 'TestVerifC19_ProcWalker', q(320, 16, cap=900), q(3200, 16, cap=3000), needs_fzf=True),
        U('proc', 'TestVerifC19_ProcWalkerFilter', q(96, 8, cap=600), q(960, 8, cap=2400), needs_fzf=True),
    ])

CHECKS['C08'] = dict(
    title='Interactive results converge to a fresh filter of the current query',
    rule='(cache) one shared chunk cache + pattern cache, 100-300 low-selectivity lines (>= 1 full chunk), sequences of 1-14 queries produced by user-like edits (append/delete/prepend a character, add ^ \' $ ! operators, OR, new term, case flip, clear) '
         'vs a fresh cache-less evaluation of each query; (matcher) the real Matcher.Loop driven by push/Reset histories in the order the coordinator issues them, incl. a superseding request injected exactly after the k-th scanned chunk (hook): '
         'every published list equals the sequential filter of one request, the list published at quiescence is the one of the last request. non-trivial = >= 3 related queries / requests on >= 1 full chunk',
    assumptions=['quiescence is judged by polling for the expected final state for up to 30 s (tiny inputs; the wait is a liveness cap, the verdict is the state)',
                 'tail/reload revisions are not exercised at this level (process level covers reload, exclude, change-nth)'],
    units=[
        U('inpkg', 'TestVerifC08_LatestRequestWins', q(), q(), pkg='src'),
        U('inpkg', 'TestVerifC08_CacheMachine', q(8000, 16), q(240000, 16, cap=1800), pkg='src'),
        U('inpkg', 'TestVerifC08_MatcherLoop', q(1600, 16, cap=600), q(32000, 16, cap=2400), pkg='src'),
        U('proc', 'TestVerifC08_OneShotRequests', q(cap=600), q(cap=600), needs_fzf=True),
        U('proc', 'TestVerifC08_ProcSessions', q(192, 16, cap=900), q(3200, 16, cap=3000), needs_fzf=True),
    ])

CHECKS['C13'] = dict(
    title='Loading and searching run concurrently without interfering',
    rule='(a) a loader goroutine appending 50-2500 items with generated yield points while 1-8 snapshots (with/without --tail) are taken and scanned (sorted) in 1-32 partitions with a shared cache, the number of matching lines (0-30 of 100) and their relevance varying from chunk to chunk: every snapshot is a contiguous frozen run of the input, '
         'its items never change, every search equals the sequential filter of its snapshot; (b) exhaustive: a superseding request injected (hook) after the k-th counted chunk for every k, lists of 1..6 (quick) / 1..12 (thorough) chunks, partitions {1,3,32}, 8 query pairs: '
         'the superseded search publishes nothing, the published list is the filter of the superseding request; (c) EventBox hand-off with 1-3 producers; (d) the real loader (Reader.feed over scripted reads cutting records anywhere) filling the list while snapshots are taken and searched: snapshot contents equal the records and never change afterwards; (f) searches overtaken by a clearing of the chunk cache (exclude) finish chunks afterwards: searches started after the clearing equal a fresh evaluation; (e) process level: a growing stream read with --tail N while the query is switched back and forth: at quiescence the list is the filter of exactly the last N records. Thorough tier runs (a)-(c) under the Go race detector. '
         'non-trivial = a snapshot taken while the last chunk was partially filled (a); a cancellation strictly inside the scan (b)',
    assumptions=['goroutine interleavings are sampled by the Go scheduler; only cancellation points are enumerated (DESIGN.md section 6)'],
    units=[
        U('inpkg', 'TestVerifC13_CancellationPoints', q(1, 16, cap=600), q(1, 16, cap=2400, race=True), pkg='src'),
        U('inpkg', 'TestVerifC13_LoadWhileSearching', q(1600, 16, cap=600), q(16000, 16, cap=2400, race=True), pkg='src'),
        U('inpkg', 'TestVerifC13_FeedWhileSearching', q(3200, 16, cap=600), q(32000, 16, cap=2400, race=True), pkg='src'),
        U('inpkg', 'TestVerifC13_LateCacheWrites', q(3200, 16, cap=600), q(64000, 16, cap=2400), pkg='src'),
        U('proc', 'TestVerifC13_ProcTailStream', q(192, 16, cap=900), q(3200, 16, cap=3000), needs_fzf=True),
        U('proc', 'TestVerifC13_ProcReplacedInput', q(192, 16, cap=900), q(3200, 16, cap=3000), needs_fzf=True),
        U('inpkg', 'TestVerifC13_EventBox', q(3200, 8), q(32000, 16, cap=1800, race=True), pkg='util'),
    ])

CHECKS['C09'] = dict(
    title='Query line, cursor and selection evolve exactly as the actions prescribe',
    rule='process-level state machine: one live fzf (tmux + --listen) per case, 5-40 steps, each a POST of 1-3 chained actions (or typed keys) out of put/change-query, 15 readline editing actions, up/down/first/last/pos/page actions, 12 selection actions, next-selected / prev-selected; '
         'lists of 0-60 lines, window heights 4-30, 3 layouts, --multi off/1/2/3/unlimited, --cycle, --track, --filepath-word, 3 info styles, sort on/off, --tac; after every step the GET state must equal the model (query, match count, position/current, ordered selection); '
         'ends with accept / abort / print-query and checks stdout + exit status. non-trivial = the history has a kill/yank or word motion, a selection action and a result-set change',
    assumptions=['the result list of a query is taken from a fresh fzf --filter run of the same options (that equality is property C08)',
                 'when the tracked item vanishes or the list shrinks below the pointer the model adopts the observed valid position (under-specified)',
                 'jump and exclude are not part of this alphabet'],
    units=[
        U('proc', 'TestVerifC09_Sessions', q(960, 16, cap=900), q(16000, 16, cap=3000), needs_fzf=True),
    ])

CHECKS['C14'] = dict(
    title='The UI never crashes or hangs and always leaves terminal and system clean',
    rule='live sessions (tmux): items with wide/combining/control/invalid characters, empty, 100k-character and multi-line records x layout/border/margin/padding/height/info/header/preview/preview-window/wrap/gap/misc options x windows from 1x1 to 220x70 '
         'x histories of 3-25 steps (every bindable action without argument scraped from the option parser, 50 actions with arguments, raw key bytes, bursts ending at any prefix of 50 xterm key/mouse/paste sequences or with one wrong byte, SGR/X10 mouse reports inside and outside the window, bracketed paste, invalid UTF-8, resizes) '
         'x exit by accept / abort / SIGTERM / SIGINT, also while a preview or reload command is running. Oracle: fzf keeps answering after every step, no panic, exit status in {0,1,130}, stty settings restored, every private terminal mode switched on is switched off, '
         'no alternate screen / mouse mode left, TMPDIR empty, no child process alive. non-trivial = a window narrower than 20 columns or shorter than 6 rows at some point, or a child command alive at exit',
    assumptions=['tmux 3.3a is the terminal; liveness is judged by GET answering within 30 s'],
    units=[
        U('proc', 'TestVerifC14_Sessions', q(320, 16, cap=900), q(6400, 16, cap=3000), needs_fzf=True),
        U('proc', 'TestVerifC14_PreviewTempFileAtExit', q(320, 16, cap=900), q(6400, 16, cap=3000), needs_fzf=True),
        U('proc', 'TestVerifC14_Regress', q(16, 4, cap=300), q(64, 8, cap=600), needs_fzf=True),
        U('proc', 'TestVerifC14_SearchProgressWhileExecuting', q(16, 8, cap=900), q(160, 8, cap=3000), needs_fzf=True),
        U('proc', 'TestVerifC14_HeaderLinesWhileSearching', q(32, 8, cap=600), q(320, 16, cap=1800), needs_fzf=True),
    ])

CHECKS['C15'] = dict(
    title='The screen shows the actual state',
    rule='live sessions (tmux capture-pane vs GET state after every step): 0-70 lines (short / medium / longer than the window / with runs of blanks / with e-acute) x window 24-130 x 8-24 x 3 layouts x --multi x --header (0-2 lines) x --header-lines (0-2) x --header-first x sort on/off, '
         'explicit ASCII pointer/marker/ellipsis; info styles default/inline/hidden/inline-right/right; histories of 3-25 steps (navigation, page, pos, selection actions, query edits, query-cursor moves, change-prompt, change-header, reloads, window resizes). Oracle: every reported result line equals the input line of its index; one prompt row = prompt + query; info shows matched/total (and selected with --multi); '
         'list rows form one contiguous block of consecutive ranks in the direction of the layout, contain the current item, pointer exactly on the current item, marker exactly on selected items, text complete when it fits else cut with the ellipsis and a piece of the line, no row wider than the window; '
         'every header line exactly once and never inside the list; hidden results only when no row is left empty. non-trivial = a step that changed only some rows (cursor move / toggle) with a truncated line or more lines than rows',
    assumptions=['--no-scrollbar, --color=bw and an ASCII pointer/marker/ellipsis are set so that the captured text can be parsed exactly; lines are ASCII plus the single-width letter e-acute (folded to a one-byte stand-in on both sides); horizontal scrolling is on in a third of the sessions (long lines are built from tokens unique to the line, so any visible piece identifies it); double-width characters are only covered by the C14 sessions (no exact comparison there)',
                 'the exact row of header lines is not asserted (layout-specific), only that they are shown once and outside the list'],
    units=[
        U('proc', 'TestVerifC15_Sessions', q(320, 16, cap=900), q(6400, 16, cap=3000), needs_fzf=True),
    ])

CHECKS['C20'] = dict(
    title='The preview always catches up with the focused line',
    rule='live sessions (tmux) with an instrumented preview command that logs its pid and arguments, prints three lines carrying a token derived from them and then ends at once / after 250 ms / never / after incremental output, or stays silent for 700 ms first; every template (at start and at each change-preview) draws which of {n} / {q} it refers to, item as {} or {f}, optionally {+}; '
         'histories of 3-16 steps (cursor moves, bursts of moves faster than a process starts, query edits, toggles, refresh-preview, toggle-preview, change-preview, change-preview-window) with gaps of 0-200 ms; exit by accept / abort / SIGTERM. '
         'At quiescence: the command started last has exactly the arguments of the focused line / query / selection, every output line on the screen carries its token (none from an older run), no superseded run is alive; after exit no preview process and no temp file is left. '
         'non-trivial = a preview was superseded while it could still be running',
    assumptions=['timing is varied, not controlled; a state that stays wrong for 4 s without change is a violation, the 40 s cap otherwise'],
    units=[
        U('proc', 'TestVerifC20_Sessions', q(400, 16, cap=900), q(2400, 16, cap=3000), needs_fzf=True),
        U('proc', 'TestVerifC20_SupersededAtStart', q(160, 16, cap=900), q(2400, 16, cap=3000), needs_fzf=True),
        U('proc', 'TestVerifC20_ScrolledWhileStreaming', q(160, 16, cap=900), q(2400, 16, cap=3000), needs_fzf=True),
    ])
