module verif.local/gen

go 1.20

require (
	pgregory.net/rapid v1.3.0
	verif.local/oracle v0.0.0
)

replace verif.local/oracle => ../oracle
