// Package gen holds the rapid generators shared by the in-package, library
// and process level harnesses.
package gen

import (
	"strings"
	"unicode"

	"pgregory.net/rapid"
	"verif.local/oracle"
)

// QueryAlphabet collides on purpose with LineAlphabet: case pairs, accent
// pairs, word-boundary characters, operator characters (interior only).
var QueryAlphabet = []rune("abcABéÉeñ_-/.1 '^$!|\\")
var LineAlphabet = []rune("abcABCéÉeEñÑn_-/.,1 2\t'^$!|\\")

// Body draws a term body that can be written unambiguously.
func Body(t *rapid.T, maxLen int) string {
	n := rapid.IntRange(1, maxLen).Draw(t, "bodyLen")
	rs := make([]rune, n)
	for i := range rs {
		rs[i] = rapid.SampledFrom(QueryAlphabet).Draw(t, "r")
	}
	if strings.ContainsRune("'^!", rs[0]) {
		rs[0] = 'a'
	}
	if strings.ContainsRune("$'\\", rs[n-1]) {
		rs[n-1] = 'b'
	}
	s := string(rs)
	if !oracle.BodyOK(s) {
		s = "c"
	}
	return s
}

// Query draws a query AST: 1..maxGroups AND groups of 1..3 alternatives.
func Query(t *rapid.T, maxGroups int, positiveBias bool) oracle.Query {
	ng := rapid.IntRange(1, maxGroups).Draw(t, "groups")
	var q oracle.Query
	for i := 0; i < ng; i++ {
		na := 1
		if rapid.IntRange(0, 3).Draw(t, "orGroup") == 0 {
			na = rapid.IntRange(2, 3).Draw(t, "alts")
		}
		var g []oracle.Term
		for j := 0; j < na; j++ {
			k := oracle.TermKind(rapid.IntRange(0, 5).Draw(t, "kind"))
			inv := rapid.IntRange(0, 3).Draw(t, "inv") == 0
			if positiveBias {
				if rapid.IntRange(0, 2).Draw(t, "posBias") > 0 {
					inv = false
					if rapid.Bool().Draw(t, "fuzzyBias") {
						k = oracle.KindFuzzy
					}
				}
			}
			g = append(g, oracle.Term{Kind: k, Inv: inv, Body: Body(t, 5)})
		}
		q = append(q, g)
	}
	return q
}

func Bodies(q oracle.Query) []string {
	var bs []string
	for _, g := range q {
		for _, tm := range g {
			bs = append(bs, tm.Body)
		}
	}
	return bs
}

func flipCase(r rune) rune {
	if unicode.IsLower(r) {
		return unicode.ToUpper(r)
	}
	return unicode.ToLower(r)
}

var accentSwap = map[rune]rune{'e': 'é', 'é': 'e', 'E': 'É', 'É': 'E', 'n': 'ñ', 'ñ': 'n', 'a': 'á', 'c': 'ç'}

// Line draws one line, seeded from one of the bodies in about two thirds of
// the cases (with insertions, case flips and accent swaps).
func Line(t *rapid.T, bodies []string, maxLen int) string {
	alpha := LineAlphabet
	rnd := func(max int, label string) string {
		return string(rapid.SliceOfN(rapid.SampledFrom(alpha), 0, max).Draw(t, label))
	}
	if len(bodies) == 0 || rapid.IntRange(0, 2).Draw(t, "seeded") == 0 {
		return rnd(maxLen, "line")
	}
	var sb strings.Builder
	nb := rapid.IntRange(1, 3).Draw(t, "nbodies")
	how := rapid.IntRange(0, 3).Draw(t, "how")
	if how != 3 {
		sb.WriteString(rnd(3, "pre"))
	}
	for i := 0; i < nb; i++ {
		b := []rune(rapid.SampledFrom(bodies).Draw(t, "b"))
		for k := range b {
			switch rapid.IntRange(0, 11).Draw(t, "mut") {
			case 0:
				b[k] = flipCase(b[k])
			case 1:
				if s, ok := accentSwap[b[k]]; ok {
					b[k] = s
				}
			}
		}
		if how == 1 { // scatter
			for _, r := range b {
				sb.WriteRune(r)
				sb.WriteString(rnd(1, "ins"))
			}
		} else {
			sb.WriteString(string(b))
		}
		if i < nb-1 {
			sb.WriteString(rapid.SampledFrom([]string{" ", "_", "-", "/", "", "x", "\t"}).Draw(t, "join"))
		}
	}
	if how != 3 || rapid.Bool().Draw(t, "post") {
		sb.WriteString(rnd(3, "post"))
	}
	s := sb.String()
	if rs := []rune(s); len(rs) > maxLen {
		s = string(rs[:maxLen])
	}
	return s
}

func Lines(t *rapid.T, bodies []string, minLines, maxLines, maxLen int) []string {
	n := rapid.IntRange(minLines, maxLines).Draw(t, "nlines")
	lines := make([]string, n)
	for i := range lines {
		lines[i] = Line(t, bodies, maxLen)
	}
	return lines
}

// MatchOpts draws the options that change the reading of the query and
// returns them with the corresponding command-line arguments.
type MatchOpts struct {
	oracle.QueryOpts
	Algo   string
	Scheme string
}

func DrawMatchOpts(t *rapid.T) (MatchOpts, []string) {
	var o MatchOpts
	var args []string
	o.Extended = rapid.IntRange(0, 7).Draw(t, "extended") > 0
	o.Exact = rapid.IntRange(0, 3).Draw(t, "exact") == 0
	o.Case = oracle.CaseMode(rapid.IntRange(0, 2).Draw(t, "case"))
	o.Literal = rapid.IntRange(0, 3).Draw(t, "literal") == 0
	o.Algo = rapid.SampledFrom([]string{"v2", "v2", "v1"}).Draw(t, "algo")
	o.Scheme = rapid.SampledFrom(oracle.SchemeNames).Draw(t, "scheme")
	if !o.Extended {
		args = append(args, "--no-extended")
	}
	if o.Exact {
		args = append(args, "--exact")
	}
	switch o.Case {
	case oracle.CaseIgnore:
		args = append(args, "-i")
	case oracle.CaseRespect:
		args = append(args, "+i")
	}
	if o.Literal {
		args = append(args, "--literal")
	}
	args = append(args, "--algo="+o.Algo, "--scheme="+o.Scheme)
	return o, args
}

// QueryText renders q (with random extra blanks) or, for --no-extended, draws
// a raw string.
func QueryText(t *rapid.T, q oracle.Query, o MatchOpts) string {
	if !o.Extended {
		return ""
	}
	pads := rapid.SliceOfN(rapid.IntRange(0, 2), 12, 12).Draw(t, "pads")
	if rapid.IntRange(0, 2).Draw(t, "nopad") > 0 {
		for i := range pads {
			pads[i] = 0
		}
	}
	text := oracle.Render(q, o.Exact, func(i int) int {
		if i+1 < len(pads) && i+1 >= 0 {
			return pads[i+1]
		}
		return 0
	})
	// the end of the query: blanks after the last term are no part of it (an escaped one is), and a
	// backslash that nothing follows stands for itself. The latter is written into q: the last term
	// of the caller's query gets the backslash.
	switch rapid.IntRange(0, 7).Draw(t, "queryEnd") {
	case 0, 1:
		text += strings.Repeat(" ", rapid.IntRange(1, 3).Draw(t, "trailingBlanks"))
	case 2:
		if len(q) > 0 {
			g := q[len(q)-1]
			last := &g[len(g)-1]
			if last.Kind == oracle.KindFuzzy || last.Kind == oracle.KindExact || last.Kind == oracle.KindPrefix {
				last.Body += "\\"
				text += "\\"
			}
		}
	}
	return text
}
