//go:build verif

package algo

import (
	"fmt"
	"testing"

	"github.com/junegunn/fzf/src/util"
	"pgregory.net/rapid"
	"verif.local/oracle"
	"verif.local/vstat"
)

// C02 - every reported match has a genuine witness; non-match means none exists.

// checkWitness returns "" when (res,pos) is consistent with the oracle.
func checkWitness(m matcherSpec, c genCase, res Result, pos []int, posNil bool) string {
	s := oracle.SchemeOf(c.Scheme)
	text := c.Text
	N, M := len(text), len(c.Pattern)
	folded := c.Fold.FoldRunes(text)
	matched := res.Start >= 0
	if M == 0 {
		// No caller passes an empty pattern; only the range must be sane.
		if matched && !(0 <= res.Start && res.Start <= res.End && res.End <= N) {
			return fmt.Sprintf("empty pattern: range [%d,%d) outside the line of length %d", res.Start, res.End, N)
		}
		return ""
	}
	var exists bool
	var occ []int
	if m.kind == oracle.KindFuzzy {
		exists = oracle.IsSubsequence(folded, c.Pattern)
	} else {
		occ = oracle.Occurrences(s, m.kind, text, folded, c.Pattern)
		exists = len(occ) > 0
	}
	if !matched {
		if exists {
			return fmt.Sprintf("reported no match although a witness exists (occurrences %v)", occ)
		}
		return ""
	}
	if !exists {
		return fmt.Sprintf("reported match [%d,%d) although no witness exists", res.Start, res.End)
	}
	if !(0 <= res.Start && res.Start <= res.End && res.End <= N) {
		return fmt.Sprintf("range [%d,%d) not inside the line of length %d", res.Start, res.End, N)
	}
	if m.kind == oracle.KindFuzzy {
		if c.WithPos && posNil {
			return "positions requested but not returned"
		}
		if !posNil {
			if len(pos) != M {
				return fmt.Sprintf("%d positions for a pattern of %d characters", len(pos), M)
			}
			sp := sortedCopy(pos)
			for i, p := range sp {
				if i > 0 && sp[i-1] == p {
					return fmt.Sprintf("position %d reported twice: %v", p, pos)
				}
				if p < res.Start || p >= res.End {
					return fmt.Sprintf("position %d outside the reported range [%d,%d)", p, res.Start, res.End)
				}
				if folded[p] != c.Pattern[i] {
					return fmt.Sprintf("position %d holds %q, pattern character %d is %q", p, folded[p], i, c.Pattern[i])
				}
			}
			// the order in which positions are returned must be monotone
			asc, desc := true, true
			for i := 1; i < len(pos); i++ {
				if pos[i] <= pos[i-1] {
					asc = false
				}
				if pos[i] >= pos[i-1] {
					desc = false
				}
			}
			if !asc && !desc {
				return fmt.Sprintf("positions not monotone: %v", pos)
			}
		} else if !oracle.IsSubsequence(folded[res.Start:res.End], c.Pattern) {
			return fmt.Sprintf("reported range [%d,%d) contains no embedding of the pattern", res.Start, res.End)
		}
		return ""
	}
	if res.End-res.Start != M {
		return fmt.Sprintf("range [%d,%d) is not %d characters long", res.Start, res.End, M)
	}
	ok := false
	for _, o := range occ {
		if o == res.Start {
			ok = true
		}
	}
	if !ok {
		return fmt.Sprintf("range [%d,%d) is not an occurrence satisfying the anchor (valid starts %v)", res.Start, res.End, occ)
	}
	if !posNil {
		for i, p := range sortedCopy(pos) {
			if p != res.Start+i {
				return fmt.Sprintf("positions %v do not cover the occurrence [%d,%d)", pos, res.Start, res.End)
			}
		}
	}
	return ""
}

func runMatcher(m matcherSpec, c genCase) (res Result, pos []int, posNil bool, panicked interface{}) {
	defer func() {
		if r := recover(); r != nil {
			panicked = r
		}
	}()
	setScheme(c.Scheme)
	chars := c.chars()
	r, p := m.fn(c.Fold.CaseSensitive, c.Fold.Normalize, c.Forward, &chars, c.Pattern, c.WithPos, c.slab())
	return r, derefPos(p), p == nil, nil
}

func c02Property(t *rapid.T) {
	maxPat := 24
	if thorough() {
		maxPat = 120
	}
	c := genCommon(t, maxPat, true)
	mi := rapid.IntRange(0, len(matchers)-1).Draw(t, "matcher")
	m := matchers[mi]
	res, pos, posNil, pv := runMatcher(m, c)
	folded := c.Fold.FoldRunes(c.Text)
	nontrivial := len(c.Pattern) > 0 && containsRune(folded, c.Pattern[0])
	labels := []string{m.name, "embed=" + c.EmbedMode, "alpha=" + c.TextMode, "slab=" + c.Slab}
	if c.AsBytes {
		labels = append(labels, "repr=bytes")
	} else {
		labels = append(labels, "repr=runes")
	}
	if !isASCII(c.Text) {
		labels = append(labels, "nonascii_text")
	}
	if c.Forward {
		labels = append(labels, "forward")
	} else {
		labels = append(labels, "backward")
	}
	if res.Start >= 0 {
		labels = append(labels, "matched")
	}
	if m.name == "FuzzyMatchV2" && c.Slab != "nil" && len(c.Text)*len(c.Pattern) > c.slabCap() {
		labels = append(labels, "fallback_v1")
	}
	if len(c.Text) > 200 {
		labels = append(labels, "long_text")
	}
	key := m.name + "|" + c.String()
	vstat.Case("C02", key, nontrivial, labels...)
	if nontrivial && vstat.WantSample("C02") {
		vstat.Sample("C02", map[string]interface{}{"matcher": m.name, "case": c.String(), "result": fmt.Sprint(res), "positions": pos})
	}
	if pv != nil {
		t.Fatalf("%s panicked: %v\n%s", m.name, pv, c)
	}
	if msg := checkWitness(m, c, res, pos, posNil); msg != "" {
		t.Fatalf("%s: %s\ncase: %s\nresult=%v positions=%v", m.name, msg, c, res, pos)
	}
}

func (c genCase) slabCap() int {
	switch c.Slab {
	case "nil":
		return 1 << 60
	case "small":
		return c.SlabSize
	}
	return 100 * 1024
}

func containsRune(rs []rune, r rune) bool {
	for _, x := range rs {
		if x == r {
			return true
		}
	}
	return false
}

func TestVerifC02_Witness(t *testing.T) {
	rapid.Check(t, c02Property)
}

// Very long lines (beyond 16-bit offsets and beyond the scratch slab) and long
// patterns; few cases, each expensive.
func TestVerifC02_Long(t *testing.T) {
	rapid.Check(t, func(t *rapid.T) {
		var c genCase
		c.Scheme = rapid.SampledFrom(oracle.SchemeNames).Draw(t, "scheme")
		plen := rapid.SampledFrom([]int{1, 2, 3, 7, 50, 300, 1100}).Draw(t, "plen")
		raw := drawRunes(t, []rune("abcAB -_/é"), plen, plen, "raw")
		c.Fold.CaseSensitive = rapid.Bool().Draw(t, "cs")
		c.Raw = string(raw)
		c.Pattern = raw
		if !c.Fold.CaseSensitive {
			c.Pattern = []rune(toLowerString(string(raw)))
		}
		c.Fold.Normalize = rapid.Bool().Draw(t, "norm") && !oracle.HasNormalizable(string(c.Pattern))
		tlen := rapid.SampledFrom([]int{300, 1024, 4000, 65535, 65536, 66000, 102400/plen - 1, 102400/plen + 1, 140000}).Draw(t, "tlen")
		if tlen < plen {
			tlen = plen + 5
		}
		filler := drawRunes(t, []rune("xyz _-/XY"), 1, 30, "filler")
		c.Text = make([]rune, 0, tlen)
		for len(c.Text) < tlen {
			c.Text = append(c.Text, filler...)
		}
		c.Text = c.Text[:tlen]
		// plant the pattern as a scattered subsequence somewhere
		if rapid.IntRange(0, 4).Draw(t, "plant") > 0 {
			at := rapid.IntRange(0, tlen-plen).Draw(t, "at")
			step := 1
			if plen > 1 && (tlen-at)/plen > 1 {
				step = rapid.IntRange(1, imin((tlen-at)/plen, 50)).Draw(t, "step")
			}
			// anchored terms look at the two ends of the line: plant contiguous copies there too
			switch rapid.IntRange(0, 5).Draw(t, "anchor") {
			case 0:
				at, step = tlen-plen, 1
			case 1:
				at, step = 0, 1
			case 2:
				if k := rapid.IntRange(1, 3).Draw(t, "blanks"); tlen-plen-k >= 0 {
					at, step = tlen-plen-k, 1
					for i := tlen - k; i < tlen; i++ {
						c.Text[i] = ' '
					}
				}
			}
			for i, r := range c.Pattern {
				c.Text[at+i*step] = variant(t, r, "v")
			}
		}
		if !isASCII(c.Text) {
			c.AsBytes = false
		} else {
			c.AsBytes = rapid.Bool().Draw(t, "asBytes")
		}
		c.Used = rapid.Bool().Draw(t, "used")
		c.Forward = rapid.Bool().Draw(t, "fwd")
		c.WithPos = rapid.Bool().Draw(t, "withPos")
		// patterns longer than ~1000 only with the production slab (real
		// callers always pass one; without it the 16-bit matrix is unguarded)
		c.Slab = "fresh"
		if rapid.Bool().Draw(t, "dirty") {
			c.Slab, c.SlabFill = "dirty", 7
		}
		c.TextMode, c.EmbedMode = "long", "planted"
		mi := rapid.IntRange(0, len(matchers)-1).Draw(t, "matcher")
		m := matchers[mi]
		res, pos, posNil, pv := runMatcher(m, c)
		labels := []string{m.name, fmt.Sprintf("tlen>=%d", bucket(tlen)), fmt.Sprintf("plen=%d", plen)}
		if m.name == "FuzzyMatchV2" && tlen*plen > 100*1024 {
			labels = append(labels, "fallback_v1")
		}
		if res.Start >= 0 {
			labels = append(labels, "matched")
		}
		vstat.Case("C02/long", fmt.Sprintf("%s|%d|%d|%v|%v|%q", m.name, tlen, plen, c.Forward, c.WithPos, string(filler)), res.Start >= 0 || tlen > 65535, labels...)
		if pv != nil {
			t.Fatalf("%s panicked: %v (tlen=%d plen=%d fwd=%v)", m.name, pv, tlen, plen, c.Forward)
		}
		if msg := checkWitness(m, c, res, pos, posNil); msg != "" {
			t.Fatalf("%s: %s (tlen=%d pattern=%q fwd=%v withPos=%v cs=%v norm=%v bytes=%v) result=%v", m.name, msg, tlen, string(c.Pattern), c.Forward, c.WithPos, c.Fold.CaseSensitive, c.Fold.Normalize, c.AsBytes, res)
		}
	})
}

func bucket(n int) int {
	for _, b := range []int{65536, 4000, 1024, 300} {
		if n >= b {
			return b
		}
	}
	return 0
}

func imin(a, b int) int {
	if a < b {
		return a
	}
	return b
}

// Regression cases: minimal reproductions of earlier findings, run on every
// invocation without the generator library.
func TestVerifC02_Regress(t *testing.T) {
	type rc struct {
		scheme, text, pat string
		cs, norm, fwd     bool
		matcher           int
	}
	cases := []rc{
		{"default", "xǅy", "ǆ", false, false, true, 0},           // F5: title-case letter, V2
		{"default", "xⅠy", "ⅰ", false, false, true, 0},           // F5
		{"default", "xⒶy", "ⓐ", false, false, false, 0},          // F5
		{"default", "xxx foo bar", "foo", false, true, false, 3}, // F9: boundary, backward
		{"path", "xxx foo bar", "foo", false, true, false, 3},
		{"default", "foo_bar", "foo", false, true, false, 3},
	}
	for _, k := range cases {
		for _, withPos := range []bool{true, false} {
			for _, slab := range []string{"nil", "fresh"} {
				c := genCase{Scheme: k.scheme, Pattern: []rune(k.pat), Text: []rune(k.text), Forward: k.fwd, WithPos: withPos, Slab: slab}
				c.Fold = oracle.Folding{CaseSensitive: k.cs, Normalize: k.norm}
				m := matchers[k.matcher]
				res, pos, posNil, pv := runMatcher(m, c)
				vstat.Case("C02/regress", m.name+c.String(), true, "regress")
				if pv != nil {
					t.Fatalf("%s panicked: %v\n%s", m.name, pv, c)
				}
				if msg := checkWitness(m, c, res, pos, posNil); msg != "" {
					t.Errorf("%s: %s\ncase: %s\nresult=%v positions=%v", m.name, msg, c, res, pos)
				}
			}
		}
	}
	_ = util.ToChars
}
