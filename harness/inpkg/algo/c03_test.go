//go:build verif

package algo

import (
	"fmt"
	"testing"
	"unicode"

	"github.com/junegunn/fzf/src/util"
	"pgregory.net/rapid"
	"verif.local/oracle"
	"verif.local/vstat"
)

// C03 - scores follow the documented scoring model.

type scoreVerdict struct {
	msg         string
	multi       bool // >= 2 embeddings
	embeddings  int
	gap, camel  bool
	matched     bool
	usedFullDP  bool
	usedGreedy  bool
	boundChecks int
}

// checkScores compares every matcher's score on (text, pattern) with the
// oracle. slabCap < 0 means "no slab".
func checkFuzzyScore(name string, fn Algo, schemeName string, text []rune, f oracle.Folding, pat []rune, forward bool, withPos bool, chars *util.Chars, slab *util.Slab, slabCap int, enumLimit int) (v scoreVerdict) {
	s := oracle.SchemeOf(schemeName)
	folded := f.FoldRunes(text)
	res, _ := fn(f.CaseSensitive, f.Normalize, forward, chars, pat, withPos, slab)
	v.matched = res.Start >= 0
	isSub := oracle.IsSubsequence(folded, pat)
	if v.matched != isSub {
		v.msg = fmt.Sprintf("match=%v but subsequence=%v", v.matched, isSub)
		return
	}
	if !isSub || len(pat) == 0 {
		return
	}
	fallback := name == "FuzzyMatchV2" && slabCap >= 0 && len(text)*len(pat) > slabCap
	if name == "FuzzyMatchV2" && !fallback {
		_, want, _ := oracle.FullDP(s, text, folded, pat)
		v.usedFullDP = true
		if res.Score != want {
			v.msg = fmt.Sprintf("score %d, unoptimised evaluation of the recurrence gives %d", res.Score, want)
			return
		}
	} else {
		_, st, en := oracle.GreedySpan(folded, pat, forward)
		want, _ := oracle.SpanScore(s, text, folded, pat, st, en)
		v.usedGreedy = true
		if res.Score != want {
			v.msg = fmt.Sprintf("score %d, greedy occurrence [%d,%d) scores %d", res.Score, st, en, want)
			return
		}
	}
	if enumLimit > 0 {
		exists, best, count, complete := oracle.BestAlignment(s, text, folded, pat, enumLimit, v.usedFullDP)
		v.embeddings = count
		v.multi = count >= 2
		if exists && complete {
			v.boundChecks++
			if res.Score > best {
				v.msg = fmt.Sprintf("score %d exceeds the best existing alignment (%d, %d alignments)", res.Score, best, count)
				return
			}
		}
	}
	return
}

func checkExactFamilyScore(m matcherSpec, schemeName string, text []rune, f oracle.Folding, pat []rune, forward bool, chars *util.Chars, slab *util.Slab) string {
	s := oracle.SchemeOf(schemeName)
	folded := f.FoldRunes(text)
	res, _ := m.fn(f.CaseSensitive, f.Normalize, forward, chars, pat, false, slab)
	if res.Start < 0 || len(pat) == 0 {
		return ""
	}
	if res.End-res.Start != len(pat) || res.Start < 0 || res.End > len(text) {
		return "" // C02's business
	}
	var want int
	switch m.kind {
	case oracle.KindExact, oracle.KindPrefix, oracle.KindSuffix:
		want, _ = oracle.SpanScore(s, text, folded, pat, res.Start, res.End)
	case oracle.KindEqual:
		want = oracle.EqualScore(s, len(pat))
	default:
		return ""
	}
	if res.Score != want {
		return fmt.Sprintf("%s: score %d, the reported occurrence [%d,%d) scores %d", m.name, res.Score, res.Start, res.End, want)
	}
	return ""
}

var exhAlpha = []rune{'a', 'B', '1', ' ', '-', '/', '_'}

func exhPatterns() [][]rune {
	var pats [][]rune
	for _, a := range "ab1" {
		pats = append(pats, []rune{a})
		for _, b := range "ab1" {
			pats = append(pats, []rune{a, b})
			for _, c := range "ab1" {
				pats = append(pats, []rune{a, b, c})
			}
		}
	}
	return pats
}

// Exhaustive: all texts up to length L over a 7-symbol alphabet that contains
// one character of every class, all patterns of length 1..3 over {a,b,1},
// both directions, all schemes.
func TestVerifC03_Exhaustive(t *testing.T) {
	L := 5
	if thorough() {
		L = 6
	}
	si, sn := shard()
	pats := exhPatterns()
	fold := oracle.Folding{CaseSensitive: false, Normalize: false}
	slab := util.MakeSlab(100*1024, 2048)
	failures := 0
	idx := 0
	var rec func(prefix []rune, depth int)
	check := func(text []rune) {
		idx++
		if idx%sn != si {
			return
		}
		bytes := []byte(string(text))
		for _, scheme := range oracle.SchemeNames {
			setScheme(scheme)
			for _, p := range pats {
				if len(p) > len(text) {
					continue
				}
				for _, fwd := range []bool{true, false} {
					chars := util.ToChars(bytes)
					for _, mm := range matchers[:2] {
						v := checkFuzzyScore(mm.name, mm.fn, scheme, text, fold, p, fwd, false, &chars, slab, 100*1024, 200)
						labels := []string{mm.name, "scheme=" + scheme}
						if v.multi {
							labels = append(labels, "multi_embedding")
						}
						if len(p) == 1 {
							labels = append(labels, "m1")
						}
						vstat.Case("C03/exhaustive", fmt.Sprintf("%s|%s|%s|%s|%v", mm.name, scheme, string(text), string(p), fwd), v.multi, labels...)
						if v.msg != "" {
							failures++
							if failures <= 20 {
								t.Errorf("%s scheme=%s text=%q pattern=%q forward=%v: %s", mm.name, scheme, string(text), string(p), fwd, v.msg)
							}
						}
					}
					for _, mm := range matchers[2:] {
						if msg := checkExactFamilyScore(mm, scheme, text, fold, p, fwd, &chars, slab); msg != "" {
							failures++
							if failures <= 20 {
								t.Errorf("scheme=%s text=%q pattern=%q forward=%v: %s", scheme, string(text), string(p), fwd, msg)
							}
						}
					}
				}
			}
		}
	}
	rec = func(prefix []rune, depth int) {
		check(prefix)
		if depth == 0 {
			return
		}
		for _, a := range exhAlpha {
			rec(append(prefix[:len(prefix):len(prefix)], a), depth-1)
		}
	}
	rec(nil, L)
	vstat.Exhaustive("C03/exhaustive", fmt.Sprintf("all texts of length <= %d over %q x all patterns of length 1..3 over \"ab1\" x 2 directions x 3 schemes x {V2,V1,exact,prefix,suffix,equal} (shard %d/%d)", L, string(exhAlpha), si, sn))
	if failures > 0 {
		t.Fatalf("%d score disagreements", failures)
	}
}

func c03Random(t *rapid.T) {
	c := genCommon(t, 10, true)
	if len(c.Text) > 400 {
		c.Text = c.Text[:400]
		c.AsBytes = c.AsBytes && isASCII(c.Text)
	}
	setScheme(c.Scheme)
	chars := c.chars()
	mi := rapid.IntRange(0, 6).Draw(t, "matcher")
	m := matchers[mi]
	if len(c.Pattern) == 0 {
		return
	}
	if m.kind == oracle.KindFuzzy {
		limit := 0
		if len(c.Text) <= 60 {
			limit = 3000
		}
		slabCap := c.slabCap()
		if c.Slab == "nil" {
			slabCap = -1
		}
		v := checkFuzzyScore(m.name, m.fn, c.Scheme, c.Text, c.Fold, c.Pattern, c.Forward, c.WithPos, &chars, c.slab(), slabCap, limit)
		labels := []string{m.name, "scheme=" + c.Scheme, "slab=" + c.Slab}
		if v.multi {
			labels = append(labels, "multi_embedding")
		}
		if v.usedGreedy {
			labels = append(labels, "greedy_reference")
		}
		if v.usedFullDP {
			labels = append(labels, "fulldp_reference")
		}
		if v.boundChecks > 0 {
			labels = append(labels, "alignment_bound_checked")
		}
		if !isASCII(c.Text) {
			labels = append(labels, "nonascii")
		}
		hasCamel, hasDelim := false, false
		for i, r := range c.Text {
			if i > 0 && unicode.IsLower(c.Text[i-1]) && unicode.IsUpper(r) {
				hasCamel = true
			}
			if r == '/' || r == ',' || r == ':' {
				hasDelim = true
			}
		}
		if hasCamel {
			labels = append(labels, "has_camel")
		}
		if hasDelim {
			labels = append(labels, "has_delim")
		}
		nt := v.matched && (v.multi || limit == 0)
		vstat.Case("C03/random", m.name+"|"+c.String(), nt, labels...)
		if nt && vstat.WantSample("C03/random") {
			vstat.Sample("C03/random", map[string]interface{}{"matcher": m.name, "case": c.String(), "embeddings": v.embeddings})
		}
		if v.msg != "" {
			t.Fatalf("%s: %s\ncase: %s", m.name, v.msg, c)
		}
		return
	}
	msg := checkExactFamilyScore(m, c.Scheme, c.Text, c.Fold, c.Pattern, c.Forward, &chars, c.slab())
	vstat.Case("C03/random", m.name+"|"+c.String(), false, m.name, "scheme="+c.Scheme)
	if msg != "" {
		t.Fatalf("%s\ncase: %s", msg, c)
	}
}

func TestVerifC03_Random(t *testing.T) {
	rapid.Check(t, c03Random)
}

// The documented ranking of word-boundary matches: foo > foo_ > _foo > _foo_
// (with any other boundary character in place of the missing underscore).
func TestVerifC03_BoundaryOrder(t *testing.T) {
	rapid.Check(t, func(t *rapid.T) {
		scheme := rapid.SampledFrom(oracle.SchemeNames).Draw(t, "scheme")
		setScheme(scheme)
		word := string(drawRunes(t, []rune("abcxyz019"), 1, 6, "word"))
		other := func(l string) string { return rapid.SampledFrom([]string{"", " ", "-", "/", ".", ","}).Draw(t, l) }
		fwd := rapid.Bool().Draw(t, "fwd")
		score := func(left, right string) int {
			text := left + word + right
			chars := util.ToChars([]byte(text))
			res, _ := ExactMatchBoundary(false, true, fwd, &chars, []rune(word), false, nil)
			if res.Start < 0 {
				t.Fatalf("scheme=%s %q does not match %q at a word boundary (forward=%v)", scheme, word, text, fwd)
			}
			return res.Score
		}
		l1, r1 := other("l1"), other("r1")
		l2 := other("l2")
		r3 := other("r3")
		s1 := score(l1, r1)
		s2 := score(l2, "_")
		s3 := score("_", r3)
		s4 := score("_", "_")
		vstat.Case("C03/boundary-order", scheme+word+l1+r1+l2+r3, true, "scheme="+scheme)
		if !(s1 > s2 && s2 > s3 && s3 > s4) {
			t.Fatalf("scheme=%s word=%q: scores %q=%d %q=%d %q=%d %q=%d are not strictly decreasing",
				scheme, word, l1+word+r1, s1, l2+word+"_", s2, "_"+word+r3, s3, "_"+word+"_", s4)
		}
	})
}

func TestVerifC03_Regress(t *testing.T) {
	type rc struct {
		scheme, text, pat string
		fwd               bool
	}
	for _, k := range []rc{
		{"default", "-a a", "a", true},  // F3: single-character forward fast path
		{"default", "/a a", "a", true},  // F3
		{"path", "-a/a", "a", true},     // F3 (path scheme: delimiter bonus)
		{"default", "ab", "ab", true},   // F11 probe (order of schemes below)
		{"default", "x ab", "ab", true}, // F11
	} {
		setScheme("path") // a previous run with another scheme must not matter
		setScheme(k.scheme)
		text := []rune(k.text)
		chars := util.ToChars([]byte(k.text))
		v := checkFuzzyScore("FuzzyMatchV2", FuzzyMatchV2, k.scheme, text, oracle.Folding{}, []rune(k.pat), k.fwd, false, &chars, nil, -1, 100)
		vstat.Case("C03/regress", k.scheme+k.text+k.pat, true, "regress")
		if v.msg != "" {
			t.Errorf("scheme=%s text=%q pattern=%q forward=%v: %s", k.scheme, k.text, k.pat, k.fwd, v.msg)
		}
	}
}
