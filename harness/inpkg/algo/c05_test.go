//go:build verif

package algo

import (
	"fmt"
	"reflect"
	"testing"

	"github.com/junegunn/fzf/src/util"
	"pgregory.net/rapid"
	"verif.local/oracle"
	"verif.local/vstat"
)

// C05 - matching is a pure function of (line, query, options): metamorphic
// relations at the level of the matcher functions.

const kfV2Start = "v2-start-without-positions"

type outcome struct {
	Res Result
	Pos []int
	Nil bool
}

func call(m matcherSpec, c genCase, chars util.Chars, withPos bool, slab *util.Slab) outcome {
	r, p := m.fn(c.Fold.CaseSensitive, c.Fold.Normalize, c.Forward, &chars, c.Pattern, withPos, slab)
	return outcome{r, derefPos(p), p == nil}
}

func sameOutcome(a, b outcome) bool {
	return a.Res == b.Res && a.Nil == b.Nil && reflect.DeepEqual(a.Pos, b.Pos)
}

// isV2StartFinding recognises exactly the documented V2 trade-off: without
// positions, Start is the first occurrence of the first pattern character
// inside the searched window instead of the first aligned position; End and
// Score agree.
func isV2StartFinding(m matcherSpec, c genCase, with, without outcome) bool {
	if m.name != "FuzzyMatchV2" || len(c.Pattern) < 2 {
		return false
	}
	if with.Res.End != without.Res.End || with.Res.Score != without.Res.Score {
		return false
	}
	if without.Res.Start < 0 || with.Res.Start < 0 || without.Res.Start > with.Res.Start {
		return false
	}
	folded := c.Fold.FoldRunes(c.Text)
	// first occurrence of pattern[0] from which the whole pattern embeds
	if without.Res.Start >= len(folded) || folded[without.Res.Start] != c.Pattern[0] {
		return false
	}
	for i := 0; i < without.Res.Start; i++ {
		if folded[i] == c.Pattern[0] && oracle.IsSubsequence(folded[i:], c.Pattern) {
			// an earlier first-character occurrence exists: the trade-off
			// would have reported that one
			return false
		}
	}
	return true
}

func c05Relations(t *rapid.T) {
	c := genCommon(t, 10, true)
	if len(c.Pattern) == 0 {
		return
	}
	setScheme(c.Scheme)
	mi := rapid.IntRange(0, len(matchers)-1).Draw(t, "matcher")
	m := matchers[mi]
	ascii := isASCII(c.Text)

	// reference call: no slab, runes representation
	cr := c
	cr.AsBytes = false
	ref := call(m, c, cr.chars(), c.WithPos, nil)
	labels := []string{m.name}
	if ref.Res.Start >= 0 {
		labels = append(labels, "matched")
	}

	// 1. slab history: previous calls on the same slab with other inputs
	slab := c.slab()
	nprev := 0
	staleLarger := false
	if slab != nil {
		nprev = rapid.IntRange(0, 4).Draw(t, "nprev")
		for i := 0; i < nprev; i++ {
			ptxt := drawRunes(t, asciiAlpha, 0, 60, "prevText")
			ppat := drawRunes(t, []rune("abcxyz-_ "), 1, 6, "prevPat")
			pchars := util.RunesToChars(ptxt)
			FuzzyMatchV2(false, false, rapid.Bool().Draw(t, "prevFwd"), &pchars, ppat, true, slab)
			if len(ptxt)*len(ppat) > len(c.Text)*len(c.Pattern) {
				staleLarger = true
			}
		}
		labels = append(labels, "slab="+c.Slab)
	}
	got := call(m, c, cr.chars(), c.WithPos, slab)
	want := ref
	if m.name == "FuzzyMatchV2" && slab != nil && len(c.Text)*len(c.Pattern) > cap(slab.I16) {
		// documented: beyond the scratch memory v2 falls back to the greedy algorithm
		want = call(matchers[1], c, cr.chars(), c.WithPos, nil)
		labels = append(labels, "fallback_v1")
	}
	if !sameOutcome(want, got) {
		t.Fatalf("%s: result depends on scratch memory: no slab %v %v, slab(%s fill=%d size=%d after %d calls) %v %v\ncase: %s",
			m.name, ref.Res, ref.Pos, c.Slab, c.SlabFill, c.SlabSize, nprev, got.Res, got.Pos, c)
	}

	// 2. representation
	if ascii {
		cb := c
		cb.AsBytes = true
		gotB := call(m, c, cb.chars(), c.WithPos, nil)
		labels = append(labels, "both_representations")
		// V2 restricts its window for the bytes representation; the result must not differ.
		if !sameOutcome(ref, gotB) {
			t.Fatalf("%s: result depends on the text representation: runes %v %v, bytes %v %v\ncase: %s", m.name, ref.Res, ref.Pos, gotB.Res, gotB.Pos, c)
		}
	}

	// 3. positions requested or not
	with := call(m, c, cr.chars(), true, nil)
	without := call(m, c, cr.chars(), false, nil)
	if with.Res != without.Res {
		if isV2StartFinding(m, c, with, without) && vstat.Known("C05", kfV2Start, fmt.Sprintf("text=%q pattern=%q: Start=%d with positions, %d without", string(c.Text), string(c.Pattern), with.Res.Start, without.Res.Start)) {
			labels = append(labels, "known:"+kfV2Start)
		} else {
			t.Fatalf("%s: result depends on whether positions are requested: with %v, without %v\ncase: %s", m.name, with.Res, without.Res, c)
		}
	}
	nt := ref.Res.Start >= 0 && (slab != nil && (c.Slab == "dirty" || staleLarger || c.SlabFill != 0) || ascii)
	vstat.Case("C05/algo", m.name+"|"+c.String(), nt, labels...)
	if nt && vstat.WantSample("C05/algo") {
		vstat.Sample("C05/algo", map[string]interface{}{"matcher": m.name, "case": c.String(), "result": fmt.Sprint(ref.Res), "prev_calls": nprev})
	}
}

func TestVerifC05_AlgoRelations(t *testing.T) {
	rapid.Check(t, c05Relations)
}

// One slab, a generated sequence of calls: every call must give what it
// gives on a fresh process-less evaluation (nil slab).
func TestVerifC05_SlabSequence(t *testing.T) {
	rapid.Check(t, func(t *rapid.T) {
		scheme := rapid.SampledFrom(oracle.SchemeNames).Draw(t, "scheme")
		setScheme(scheme)
		size := rapid.SampledFrom([]int{100 * 1024, 100 * 1024, 4096, 512}).Draw(t, "slabSize")
		slab := util.MakeSlab(size, 2048)
		n := rapid.IntRange(2, 12).Draw(t, "ncalls")
		matched := 0
		key := scheme
		for i := 0; i < n; i++ {
			pat := drawRunes(t, []rune("abAB-_ "), 1, 5, "pat")
			cs := rapid.Bool().Draw(t, "cs")
			if !cs {
				pat = []rune(toLowerString(string(pat)))
			}
			text := drawRunes(t, []rune("abAB-_ /xé"), 0, 40, "text")
			fwd := rapid.Bool().Draw(t, "fwd")
			withPos := rapid.Bool().Draw(t, "withPos")
			mi := rapid.IntRange(0, 1).Draw(t, "matcher")
			m := matchers[mi]
			c1 := util.RunesToChars(append([]rune{}, text...))
			c2 := util.RunesToChars(append([]rune{}, text...))
			r1, p1 := m.fn(cs, false, fwd, &c1, pat, withPos, nil)
			r2, p2 := m.fn(cs, false, fwd, &c2, pat, withPos, slab)
			if r1.Start >= 0 {
				matched++
			}
			key += fmt.Sprintf("|%s,%q,%q,%v,%v", m.name, string(text), string(pat), fwd, withPos)
			if r1 != r2 || !reflect.DeepEqual(derefPos(p1), derefPos(p2)) {
				t.Fatalf("call %d (%s scheme=%s text=%q pattern=%q cs=%v fwd=%v withPos=%v): fresh %v %v, reused slab %v %v",
					i, m.name, scheme, string(text), string(pat), cs, fwd, withPos, r1, derefPos(p1), r2, derefPos(p2))
			}
		}
		vstat.Case("C05/slab-sequence", key, matched >= 2, fmt.Sprintf("slab=%d", size))
	})
}

// The scheme in force is the last one initialised, whatever was initialised
// before (library users may run several finders in one process).
func TestVerifC05_SchemeHistory(t *testing.T) {
	rapid.Check(t, func(t *rapid.T) {
		hist := rapid.SliceOfN(rapid.SampledFrom(oracle.SchemeNames), 0, 3).Draw(t, "history")
		final := rapid.SampledFrom(oracle.SchemeNames).Draw(t, "final")
		for _, h := range hist {
			Init(h)
		}
		Init(final)
		text := drawRunes(t, []rune("ab ,/:;|-_AB1"), 1, 12, "text")
		pat := drawRunes(t, []rune("ab1"), 1, 3, "pat")
		chars := util.RunesToChars(append([]rune{}, text...))
		fwd := rapid.Bool().Draw(t, "fwd")
		v := checkFuzzyScore("FuzzyMatchV2", FuzzyMatchV2, final, text, oracle.Folding{}, pat, fwd, false, &chars, nil, -1, 0)
		differ := false
		for _, h := range hist {
			if h != final {
				differ = true
			}
		}
		vstat.Case("C05/scheme-history", fmt.Sprintf("%v|%s|%q|%q|%v", hist, final, string(text), string(pat), fwd), v.matched && differ, "final="+final)
		if v.msg != "" {
			t.Fatalf("after initialising %v then %q: text=%q pattern=%q forward=%v: %s", hist, final, string(text), string(pat), fwd, v.msg)
		}
	})
}

func TestVerifC05_Regress(t *testing.T) {
	// F4: stale slab cells read by the back-trace
	setScheme("default")
	for _, fill := range []int{0, 1, 2, 40} {
		c := genCase{Scheme: "default", Pattern: []rune("ba"), Text: []rune("ABB  A"), Forward: false, WithPos: true, Slab: "dirty", SlabFill: fill}
		m := matchers[0]
		ref := call(m, c, c.chars(), true, nil)
		got := call(m, c, c.chars(), true, c.slab())
		vstat.Case("C05/regress", fmt.Sprint("F4", fill), true, "regress")
		if !sameOutcome(ref, got) {
			t.Errorf("FuzzyMatchV2 text=%q pattern=%q backward: no slab %v %v, slab filled with %d: %v %v", "ABB  A", "ba", ref.Res, ref.Pos, fill, got.Res, got.Pos)
		}
	}
}

// Which of the two fuzzy algorithms evaluates a long line is part of the
// result (V2 hands over to V1 when the line times the term exceeds the scratch
// memory the callers provide, 100 K cells). That choice must depend on the
// line and the term only, not on what the same scratch memory was used for
// before: sequences of long lines on one production-size slab.
func TestVerifC05_SlabLongLines(t *testing.T) {
	rapid.Check(t, func(t *rapid.T) {
		setScheme("default")
		slab := util.MakeSlab(100*1024, 2048)
		n := rapid.IntRange(2, 4).Draw(t, "ncalls")
		key := ""
		crossed := 0
		for i := 0; i < n; i++ {
			tlen := rapid.SampledFrom([]int{5000, 14000, 16000, 30000, 45000, 60000, 90000}).Draw(t, "tlen")
			pat := []rune(rapid.SampledFrom([]string{"ab", "abc", "ba"}).Draw(t, "pat"))
			text := make([]rune, tlen)
			for k := range text {
				text[k] = 'x'
			}
			// a scattered occurrence first, a contiguous one later: the greedy and the optimal algorithm disagree
			p1 := rapid.IntRange(0, tlen/3).Draw(t, "scatteredAt")
			for k, r := range pat {
				text[p1+k*40] = r
			}
			p2 := rapid.IntRange(tlen/2, tlen-len(pat)).Draw(t, "contiguousAt")
			copy(text[p2:], pat)
			fwd := rapid.Bool().Draw(t, "fwd")
			withPos := rapid.Bool().Draw(t, "withPos")
			// the line is held as bytes (what fzf does with an ASCII line) or as characters: which
			// algorithm evaluates it depends on its length alone
			asBytes := rapid.Bool().Draw(t, "asBytes")
			cs := util.RunesToChars(append([]rune{}, text...))
			if asBytes {
				cs = util.ToChars([]byte(string(text)))
			}
			got, gotPos := FuzzyMatchV2(false, false, fwd, &cs, pat, withPos, slab)
			ref := util.RunesToChars(append([]rune{}, text...))
			var want Result
			var wantPos *[]int
			which := "V2"
			if tlen*len(pat) > 100*1024 {
				which = "V1"
				crossed++
				want, wantPos = FuzzyMatchV1(false, false, fwd, &ref, pat, withPos, nil)
			} else {
				want, wantPos = FuzzyMatchV2(false, false, fwd, &ref, pat, withPos, nil)
			}
			key += fmt.Sprintf("|%d,%s,%d,%d,%v,%v,%v", tlen, string(pat), p1, p2, fwd, withPos, asBytes)
			if got.Score != want.Score || got.End != want.End || (withPos && (got.Start != want.Start || !reflect.DeepEqual(derefPos(gotPos), derefPos(wantPos)))) {
				t.Fatalf("call %d of a sequence on one slab (%s): line of %d characters (held as bytes: %v), term %q, fwd=%v withPos=%v: result %v %v, but %s on an unused evaluation gives %v %v",
					i, key, tlen, asBytes, string(pat), fwd, withPos, got, derefPos(gotPos), which, want, derefPos(wantPos))
			}
		}
		vstat.Case("C05/slab-long-lines", key, crossed >= 1 && crossed < n, fmt.Sprintf("calls=%d", n))
	})
}
