//go:build verif

package algo

import (
	"fmt"
	"os"
	"sort"
	"strings"
	"testing"
	"unicode"

	"github.com/junegunn/fzf/src/util"
	"pgregory.net/rapid"
	"verif.local/oracle"
	"verif.local/vstat"
)

func TestMain(m *testing.M) {
	code := m.Run()
	vstat.Flush()
	os.Exit(code)
}

func thorough() bool { return vstat.Tier() == "thorough" }

// shard returns (i, n) from VERIF_SHARD.
func shard() (int, int) {
	var i, n int
	if _, err := fmt.Sscanf(os.Getenv("VERIF_SHARD"), "%d/%d", &i, &n); err != nil || n <= 0 {
		return 0, 1
	}
	return i, n
}

// ---------------------------------------------------------------- alphabets

var asciiAlpha = []rune("abcxyzABCXYZ0189   \t_-/.,:;|'^$!\\")
var uniAlpha = []rune("éÉèñÑüÜçåÅøØǅǆǄⅠⅰⒶⓐбБжЖ漢字한ｶ́ 　ßİıſK�ơỨứ")
var whiteAlpha = []rune("    \t\t\n\r\v\f 　ab_")

var accentVariants = map[rune][]rune{}

func init() {
	for _, r := range []rune("áàâäãåāăąćčçďéèêëēęěíìîïīńñňóòôöõōőŕřśšşťúùûüūůűýÿźžżÁÀÂÄÉÈÊËÍÓÖÚÜÑÇ") {
		if b := oracle.NormRune(r); b != r {
			accentVariants[b] = append(accentVariants[b], r)
		}
	}
}

type matcherSpec struct {
	name string
	fn   Algo
	kind oracle.TermKind
}

var matchers = []matcherSpec{
	{"FuzzyMatchV2", FuzzyMatchV2, oracle.KindFuzzy},
	{"FuzzyMatchV1", FuzzyMatchV1, oracle.KindFuzzy},
	{"ExactMatchNaive", ExactMatchNaive, oracle.KindExact},
	{"ExactMatchBoundary", ExactMatchBoundary, oracle.KindBoundary},
	{"PrefixMatch", PrefixMatch, oracle.KindPrefix},
	{"SuffixMatch", SuffixMatch, oracle.KindSuffix},
	{"EqualMatch", EqualMatch, oracle.KindEqual},
}

// ---------------------------------------------------------------- generators

type genCase struct {
	Scheme    string
	Raw       string // raw term text before preparation
	Pattern   []rune // prepared pattern
	Fold      oracle.Folding
	Text      []rune
	TextMode  string
	EmbedMode string
	Forward   bool
	WithPos   bool
	Slab      string // nil | fresh | dirty | small
	SlabFill  int
	SlabSize  int
	AsBytes   bool // ASCII text held as bytes (else as runes)
	Used      bool // the line has been looked at before: its read-only accessors were called (they may cache)
}

func (c genCase) String() string {
	return fmt.Sprintf("scheme=%s pat=%q cs=%v norm=%v text=%q fwd=%v withPos=%v slab=%s/%d/%d bytes=%v",
		c.Scheme, string(c.Pattern), c.Fold.CaseSensitive, c.Fold.Normalize, string(c.Text), c.Forward, c.WithPos, c.Slab, c.SlabFill, c.SlabSize, c.AsBytes) + fmt.Sprintf(" used=%v", c.Used)
}

func isASCII(rs []rune) bool {
	for _, r := range rs {
		if r >= 0x80 {
			return false
		}
	}
	return true
}

func variant(t *rapid.T, r rune, label string) rune {
	switch rapid.IntRange(0, 9).Draw(t, label) {
	case 0, 1:
		if u := unicode.ToUpper(r); u != r {
			return u
		}
	case 2:
		if l := unicode.ToLower(r); l != r {
			return l
		}
	case 3:
		if vs := accentVariants[unicode.ToLower(r)]; len(vs) > 0 {
			return vs[rapid.IntRange(0, len(vs)-1).Draw(t, label+"acc")]
		}
	case 4:
		if t := unicode.ToTitle(r); t != r {
			return t
		}
	}
	return r
}

func drawRunes(t *rapid.T, alpha []rune, min, max int, label string) []rune {
	return rapid.SliceOfN(rapid.SampledFrom(alpha), min, max).Draw(t, label)
}

// genTerm draws a raw term and prepares it the way real callers do.
func genTerm(t *rapid.T, maxLen int) (raw string, pat []rune, f oracle.Folding, alpha []rune, mode string) {
	mode = rapid.SampledFrom([]string{"ascii", "ascii", "mixed", "white"}).Draw(t, "alpha")
	switch mode {
	case "ascii":
		alpha = asciiAlpha
	case "mixed":
		alpha = append(append([]rune{}, asciiAlpha...), uniAlpha...)
	default:
		alpha = whiteAlpha
	}
	n := rapid.IntRange(0, 8).Draw(t, "plenClass")
	plen := n
	if n == 0 {
		plen = rapid.IntRange(0, 1).Draw(t, "plen0")
	} else if n == 8 && maxLen > 8 {
		plen = rapid.IntRange(9, maxLen).Draw(t, "plenLong")
	}
	rawRunes := drawRunes(t, alpha, plen, plen, "raw")
	raw = string(rawRunes)
	f.CaseSensitive = rapid.Bool().Draw(t, "cs")
	wantNorm := rapid.Bool().Draw(t, "norm")
	body := raw
	if !f.CaseSensitive {
		body = strings.ToLower(raw)
	}
	// real callers normalise only terms without normalisable letters
	f.Normalize = wantNorm && !oracle.HasNormalizable(strings.ToLower(raw)) && !oracle.HasNormalizable(body)
	pat = []rune(body)
	return
}

// genText draws a line, usually seeded with the pattern.
func genText(t *rapid.T, pat []rune, alpha []rune, longOK bool) (text []rune, embed string) {
	embed = rapid.SampledFrom([]string{"scatter", "scatter", "scatter", "contig", "contig", "nearmiss", "random", "anchored"}).Draw(t, "embed")
	maxChunk := 4
	if longOK && rapid.IntRange(0, 19).Draw(t, "long") == 0 {
		maxChunk = rapid.SampledFrom([]int{40, 200, 700}).Draw(t, "chunkmax")
	}
	minChunk := 0
	if maxChunk > 4 {
		minChunk = maxChunk / 3
	}
	chunk := func(label string) []rune { return drawRunes(t, alpha, minChunk, maxChunk, label) }
	switch embed {
	case "random":
		text = drawRunes(t, alpha, 0, 10*maxChunk, "text")
	case "scatter", "nearmiss":
		drop := -1
		if embed == "nearmiss" && len(pat) > 0 {
			drop = rapid.IntRange(0, len(pat)-1).Draw(t, "drop")
		}
		reps := rapid.IntRange(1, 2).Draw(t, "reps")
		for k := 0; k < reps; k++ {
			for i, r := range pat {
				text = append(text, chunk("c")...)
				if i == drop && k == 0 {
					if rapid.Bool().Draw(t, "dropKind") {
						continue
					}
					text = append(text, rapid.SampledFrom(alpha).Draw(t, "repl"))
					continue
				}
				text = append(text, variant(t, r, "v"))
			}
		}
		text = append(text, chunk("tail")...)
	case "contig", "anchored":
		reps := rapid.IntRange(1, 3).Draw(t, "reps")
		bnd := []rune(" _-/a1.\t")
		if embed == "anchored" {
			text = append(text, drawRunes(t, []rune(" \t "), 0, 2, "lead")...)
		} else {
			text = append(text, chunk("c")...)
		}
		for k := 0; k < reps; k++ {
			if k > 0 || embed != "anchored" {
				if rapid.Bool().Draw(t, "lb") {
					text = append(text, rapid.SampledFrom(bnd).Draw(t, "lbc"))
				}
			}
			for _, r := range pat {
				text = append(text, variant(t, r, "v"))
			}
			if k < reps-1 || embed != "anchored" {
				if rapid.Bool().Draw(t, "rb") {
					text = append(text, rapid.SampledFrom(bnd).Draw(t, "rbc"))
				}
				text = append(text, chunk("c")...)
			}
		}
		if embed == "anchored" {
			text = append(text, drawRunes(t, []rune(" \t "), 0, 2, "trail")...)
		}
	}
	return
}

func genCommon(t *rapid.T, maxPat int, longOK bool) genCase {
	var c genCase
	c.Scheme = rapid.SampledFrom(oracle.SchemeNames).Draw(t, "scheme")
	var alpha []rune
	c.Raw, c.Pattern, c.Fold, alpha, c.TextMode = genTerm(t, maxPat)
	c.Text, c.EmbedMode = genText(t, c.Pattern, alpha, longOK)
	c.Forward = rapid.Bool().Draw(t, "fwd")
	c.WithPos = rapid.Bool().Draw(t, "withPos")
	c.Slab = rapid.SampledFrom([]string{"nil", "fresh", "dirty", "dirty", "small"}).Draw(t, "slab")
	switch c.Slab {
	case "dirty":
		c.SlabFill = rapid.SampledFrom([]int{-3, -1, 1, 2, 5, 16, 40, 0x7fff, -0x8000}).Draw(t, "fill")
	case "small":
		c.SlabSize = rapid.SampledFrom([]int{0, 1, 7, 64, 200, 1024, 4096}).Draw(t, "slabSize")
		c.SlabFill = rapid.SampledFrom([]int{0, 1, -1, 40}).Draw(t, "fill")
	}
	c.AsBytes = isASCII(c.Text) && rapid.Bool().Draw(t, "asBytes")
	c.Used = rapid.IntRange(0, 2).Draw(t, "used") == 0
	return c
}

// ---------------------------------------------------------------- slabs

var prodSlab = util.MakeSlab(100*1024, 2048)

func fillSlab(s *util.Slab, v int) {
	for i := range s.I16 {
		s.I16[i] = int16(v)
	}
	for i := range s.I32 {
		s.I32[i] = int32(v)
	}
}

func (c genCase) slab() *util.Slab {
	switch c.Slab {
	case "nil":
		return nil
	case "fresh":
		fillSlab(prodSlab, 0)
		return prodSlab
	case "dirty":
		fillSlab(prodSlab, c.SlabFill)
		return prodSlab
	}
	s := util.MakeSlab(c.SlabSize, c.SlabSize/16+1)
	fillSlab(s, c.SlabFill)
	return s
}

func (c genCase) chars() util.Chars {
	var ch util.Chars
	if c.AsBytes {
		ch = util.ToChars([]byte(string(c.Text)))
	} else {
		cp := make([]rune, len(c.Text))
		copy(cp, c.Text)
		ch = util.RunesToChars(cp)
	}
	if c.Used {
		// what ranking and rendering do with a line between two searches
		ch.TrimLength()
		ch.LeadingWhitespaces()
		ch.TrailingWhitespaces()
		ch.NumLines(10)
		_ = ch.ToString()
		_ = ch.Length()
	}
	return ch
}

func derefPos(p *[]int) []int {
	if p == nil {
		return nil
	}
	return append([]int{}, (*p)...)
}

func sortedCopy(p []int) []int {
	q := append([]int{}, p...)
	sort.Ints(q)
	return q
}

func toLowerString(s string) string { return strings.ToLower(s) }

var currentScheme string

func setScheme(name string) {
	// Init mutates package globals; always call it so that no case depends on
	// the scheme of the previous one.
	if !Init(name) {
		panic("bad scheme " + name)
	}
	currentScheme = name
}
