//go:build verif

package algo

import (
	"testing"

	"pgregory.net/rapid"
)

// Coverage-guided variants (thorough tier) of the rapid properties.
func FuzzVerifC02_Witness(f *testing.F)   { f.Fuzz(rapid.MakeFuzz(c02Property)) }
func FuzzVerifC03_Random(f *testing.F)    { f.Fuzz(rapid.MakeFuzz(c03Random)) }
func FuzzVerifC05_Relations(f *testing.F) { f.Fuzz(rapid.MakeFuzz(c05Relations)) }
