//go:build verif

package fzf

import (
	"fmt"
	"sort"
	"strings"
	"testing"

	"github.com/junegunn/fzf/src/algo"
	"github.com/junegunn/fzf/src/util"
	"pgregory.net/rapid"
	"verif.local/gen"
	"verif.local/oracle"
	"verif.local/vstat"
)

// C01 at the level an interactive session evaluates queries: a sequence of
// related queries (a term extended, shortened, extended differently, terms
// added and removed) over full chunks with the per-chunk result cache shared
// between them, as the matcher does while the user types. Every match set
// must be the one the documented grammar gives for that query alone.
func propC01QuerySequences(t *rapid.T) {
	algo.Init("default")
	sortCriteria = []criterion{byScore, byLength}
	n := rapid.SampledFrom([]int{100, 150, 200, 300}).Draw(t, "n")
	q := gen.Query(t, 2, true)
	bodies := gen.Bodies(q)
	// few matching lines per chunk (the cache keeps lists of at most 20), the rest is filler
	pool := gen.Lines(t, bodies, 2, 8, 14)
	density := rapid.SampledFrom([]int{3, 8, 15, 40}).Draw(t, "density")
	lines := make([]string, n)
	for i := range lines {
		if rapid.IntRange(0, 99).Draw(t, "hit") < density {
			lines[i] = rapid.SampledFrom(pool).Draw(t, "l")
		} else {
			lines[i] = "~~~"
		}
	}
	_, chunks := buildChunks(lines, 0)
	shared := NewChunkCache()
	patternCache := map[string]*Pattern{}
	slab := util.MakeSlab(slab16Size, slab32Size)
	qo := oracle.QueryOpts{Extended: true}
	nq := rapid.IntRange(2, 9).Draw(t, "nqueries")
	var history []string
	branched := false
	for step := 0; step < nq; step++ {
		if step > 0 {
			// edit the query the way typing does
			g := rapid.IntRange(0, len(q)-1).Draw(t, "group")
			a := rapid.IntRange(0, len(q[g])-1).Draw(t, "alt")
			switch rapid.SampledFrom([]string{"extend", "extend", "shorten", "shorten", "add-term", "drop-term", "negate"}).Draw(t, "edit") {
			case "extend":
				nb := q[g][a].Body + string(rapid.SampledFrom([]rune("abcAB1")).Draw(t, "ch"))
				if oracle.BodyOK(nb) {
					q[g][a].Body = nb
				}
			case "shorten":
				if rs := []rune(q[g][a].Body); len(rs) > 1 && oracle.BodyOK(string(rs[:len(rs)-1])) {
					q[g][a].Body = string(rs[:len(rs)-1])
					branched = true
				}
			case "add-term":
				q = append(q, gen.Query(t, 1, true)...)
			case "drop-term":
				if len(q) > 1 {
					q = q[:len(q)-1]
					branched = true
				}
			case "negate":
				q[g][a].Inv = !q[g][a].Inv
			}
		}
		text := oracle.Render(q, false, nil)
		if back := oracle.Parse(text, false); !oracle.QueryEqual(back, q) {
			continue // generator guard: spelling not covered by the documented grammar
		}
		// the end of the query as typed: blanks after the last term, or a backslash that nothing
		// follows yet (it stands for itself)
		evalQ := q
		switch rapid.IntRange(0, 7).Draw(t, "queryEnd") {
		case 0:
			text += strings.Repeat(" ", rapid.IntRange(1, 3).Draw(t, "trailingBlanks"))
		case 1:
			lg := q[len(q)-1]
			if k := lg[len(lg)-1].Kind; k == oracle.KindFuzzy || k == oracle.KindExact || k == oracle.KindPrefix {
				evalQ = make(oracle.Query, len(q))
				for i := range q {
					evalQ[i] = append([]oracle.Term{}, q[i]...)
				}
				evalQ[len(q)-1][len(lg)-1].Body += "\\"
				text += "\\"
				if back := oracle.Parse(text, false); !oracle.QueryEqual(back, evalQ) {
					t.Fatalf("generator guard: %q does not parse back to %v (got %v)", text, evalQ, back)
				}
			}
		}
		history = append(history, text)
		p := BuildPattern(shared, patternCache, true, algo.FuzzyMatchV2, true, CaseSmart, true, true, false, true, nil, Delimiter{}, revision{}, []rune(text), nil)
		var got []int
		for _, c := range chunks {
			for _, r := range p.Match(c, slab) {
				got = append(got, int(r.item.Index()))
			}
		}
		sort.Ints(got)
		var want []int
		for i, l := range lines {
			if evalQ.Eval(qo, [][]rune{[]rune(l)}) {
				want = append(want, i)
			}
		}
		if fmt.Sprint(got) != fmt.Sprint(want) {
			t.Fatalf("query %q after the queries %q over %d lines: matched lines %v, the documented grammar gives %v\nlines: %q", text, history[:len(history)-1], n, got, want, compactLinesExcept(lines, "~~~"))
		}
	}
	vstat.Case("C01/query-sequences", strings.Join(history, "|")+fmt.Sprint(lines), len(history) >= 3 && branched, fmt.Sprintf("queries=%d", imin(len(history), 6)), fmt.Sprintf("branched=%v", branched))
	if len(history) >= 3 && branched && vstat.WantSample("C01/query-sequences") {
		vstat.Sample("C01/query-sequences", map[string]interface{}{"queries": history, "lines": n})
	}
}

func compactLinesExcept(lines []string, filler string) []string {
	var out []string
	for i, l := range lines {
		if l != filler {
			out = append(out, fmt.Sprintf("%d:%s", i, l))
		}
	}
	return out
}

func TestVerifC01_QuerySequences(t *testing.T) {
	rapid.Check(t, propC01QuerySequences)
}
