//go:build verif

package fzf

import (
	"fmt"
	"sort"
	"strings"
	"sync"
	"testing"
	"time"

	"github.com/junegunn/fzf/src/algo"
	"github.com/junegunn/fzf/src/util"
	"pgregory.net/rapid"
	"verif.local/oracle"
	"verif.local/vstat"
)

// C02 where the matchers actually run: in the worker goroutines of the
// matcher, each with its own scratch memory, restarted whenever the query
// changes. A search that overtakes a running one must still report exactly
// the lines that have a witness (here: contain the query characters in
// order), whatever the cancelled workers were doing at that moment.
func TestVerifC02_WitnessAcrossCancelledSearches(t *testing.T) {
	rapid.Check(t, func(t *rapid.T) {
		algo.Init("default")
		sortCriteria = []criterion{byScore, byLength}
		n := rapid.SampledFrom([]int{3000, 8000}).Draw(t, "lines")
		alpha := []rune("abcdeABé ")
		seed := rapid.IntRange(1, 1<<30).Draw(t, "lineSeed")
		lines := make([]string, n)
		x := uint64(seed)
		for i := range lines {
			var sb strings.Builder
			l := 8 + int(x%24)
			for k := 0; k < l; k++ {
				x = x*6364136223846793005 + 1442695040888963407
				sb.WriteRune(alpha[(x>>33)%uint64(len(alpha))])
			}
			lines[i] = sb.String()
		}
		_, chunks := buildChunks(lines, 0)
		cache := NewChunkCache()
		eventBox := util.NewEventBox()
		pc := map[string]*Pattern{}
		var pcMu sync.Mutex
		m := NewMatcher(cache, func(runes []rune) *Pattern {
			pcMu.Lock()
			defer pcMu.Unlock()
			return BuildPattern(cache, pc, true, algo.FuzzyMatchV2, true, CaseSmart, true, true, false, true, nil, Delimiter{}, revision{}, runes, nil)
		}, true, false, eventBox, revision{})
		parts := rapid.SampledFrom([]int{2, 8, 32}).Draw(t, "partitions")
		m.partitions = parts
		m.slab = make([]*util.Slab, parts)
		q1 := string(rapid.SliceOfN(rapid.SampledFrom([]rune("abcde")), 1, 6).Draw(t, "firstQuery"))
		q2 := string(rapid.SliceOfN(rapid.SampledFrom([]rune("abcde")), 1, 6).Draw(t, "secondQuery"))
		at := rapid.IntRange(1, len(chunks)-1).Draw(t, "overtakeAfterChunk")
		injected := false
		published := make(chan int, 64)
		verifHook = func(point string, a, b int) {
			switch point {
			case "scan.counted":
				if !injected && a >= at {
					injected = true
					m.Reset(chunks, []rune(q2), true, true, true, revision{})
				}
			case "loop.publish":
				published <- a
			}
		}
		defer func() { verifHook = nil }()
		go m.Loop()
		defer m.Stop()
		m.Reset(chunks, []rune(q1), true, true, true, revision{})
		var merger *Merger
		deadline := time.After(30 * time.Second)
		for merger == nil || !injected {
			select {
			case <-published:
				eventBox.Wait(func(events *util.Events) {
					if v, ok := (*events)[EvtSearchFin]; ok {
						merger = v.(*Merger)
					}
					events.Clear()
				})
			case <-deadline:
				t.Fatalf("VERIF-INFRA: no result within 30 s (injected=%v)", injected)
			}
		}
		// one more publish may be on its way (the overtaking search)
		for {
			select {
			case <-published:
				eventBox.Wait(func(events *util.Events) {
					if v, ok := (*events)[EvtSearchFin]; ok {
						merger = v.(*Merger)
					}
					events.Clear()
				})
				continue
			case <-time.After(300 * time.Millisecond):
			}
			break
		}
		want := map[int]bool{}
		for i, l := range lines {
			_, f := oracle.PrepareTerm(q2, q2, oracle.CaseSmart, false)
			pt, _ := oracle.PrepareTerm(q2, q2, oracle.CaseSmart, false)
			if oracle.IsSubsequence(f.FoldRunes([]rune(l)), pt) {
				want[i] = true
			}
		}
		var got []int
		for i := 0; i < merger.Length(); i++ {
			got = append(got, int(merger.Get(i).item.Index()))
		}
		sort.Ints(got)
		vstat.Case("C02/across-cancelled-searches", fmt.Sprint(seed, n, parts, q1, q2, at), injected && len(want) > 0, fmt.Sprintf("partitions=%d", parts))
		seen := map[int]bool{}
		for _, g := range got {
			if !want[g] {
				t.Fatalf("query %q overtook the search for %q after chunk %d of %d (%d partitions): line %d %q is reported but holds no witness", q2, q1, at, len(chunks), parts, g, lines[g])
			}
			if seen[g] {
				t.Fatalf("query %q: line %d reported twice", q2, g)
			}
			seen[g] = true
		}
		for w := range want {
			if !seen[w] {
				t.Fatalf("query %q overtook the search for %q after chunk %d of %d (%d partitions): line %d %q has a witness but is not reported (%d of %d reported)", q2, q1, at, len(chunks), parts, w, lines[w], len(got), len(want))
			}
		}
	})
}

// The witness when the searched text is a part of the line (--nth): range and positions are
// reported in characters of the whole line, for every kind of term and both algorithms.
func TestVerifC02_WitnessInScope(t *testing.T) {
	rapid.Check(t, func(t *rapid.T) { nthMatchProp(t, "C02/witness-in-scope", true) })
}
