//go:build verif

package fzf

import (
	"fmt"
	"sort"
	"strings"
	"sync"
	"testing"
	"time"

	"github.com/junegunn/fzf/src/algo"
	"github.com/junegunn/fzf/src/util"
	"pgregory.net/rapid"
	"verif.local/gen"
	"verif.local/oracle"
	"verif.local/vstat"
)

// C04 (in-package) - chunking, partitioning, per-partition sort, lazy k-way
// merge and probe order never influence the result: it is the stable global
// sort of the matching items by the key each item gets in isolation.

var allTiebreaks []string

func tiebreakLists() []string {
	if allTiebreaks == nil {
		names := []string{"length", "chunk", "begin", "end", "pathname"}
		var rec func(prefix []string, depth int)
		rec = func(prefix []string, depth int) {
			if len(prefix) > 0 {
				allTiebreaks = append(allTiebreaks, strings.Join(prefix, ","))
				if len(prefix) < 3 {
					allTiebreaks = append(allTiebreaks, strings.Join(prefix, ",")+",index")
				}
			}
			if depth == 3 {
				return
			}
			for _, n := range names {
				dup := false
				for _, p := range prefix {
					if p == n {
						dup = true
					}
				}
				if !dup {
					rec(append(append([]string{}, prefix...), n), depth+1)
				}
			}
		}
		rec(nil, 0)
		allTiebreaks = append(allTiebreaks, "index")
	}
	return allTiebreaks
}

type scanSetup struct {
	lines    []string
	query    string
	o        gen.MatchOpts
	tiebreak string
	forward  bool
	withPos  bool
	tac      bool
	sort     bool
	tail     int
	// ranked tells whether the documentation lets this query be ranked: it has at least one
	// term that is not negated (an empty or negation-only query lists in input order)
	ranked bool
}

func (s scanSetup) String() string {
	return fmt.Sprintf("query=%q exact=%v extended=%v case=%d literal=%v algo=%s scheme=%s tiebreak=%s forward=%v withPos=%v tac=%v sort=%v tail=%d n=%d",
		s.query, s.o.Exact, s.o.Extended, s.o.Case, s.o.Literal, s.o.Algo, s.o.Scheme, s.tiebreak, s.forward, s.withPos, s.tac, s.sort, s.tail, len(s.lines))
}

func buildChunks(lines []string, tail int) (*ChunkList, []*Chunk) {
	idx := int32(0)
	cl := NewChunkList(NewChunkCache(), func(item *Item, data []byte) bool {
		item.text = util.ToChars(data)
		item.text.Index = idx
		idx++
		return true
	})
	for _, l := range lines {
		cl.Push([]byte(l))
	}
	snap, _, _ := cl.Snapshot(tail)
	return cl, snap
}

func (s scanSetup) pattern(cache *ChunkCache, cacheable bool) *Pattern {
	return s.patternFor(cache, cacheable, s.query, nil)
}

func (s scanSetup) patternFor(cache *ChunkCache, cacheable bool, query string, denylist map[int32]struct{}) *Pattern {
	fa := algo.FuzzyMatchV2
	if s.o.Algo == "v1" {
		fa = algo.FuzzyMatchV1
	}
	cm := CaseSmart
	switch s.o.Case {
	case oracle.CaseIgnore:
		cm = CaseIgnore
	case oracle.CaseRespect:
		cm = CaseRespect
	}
	return BuildPattern(cache, map[string]*Pattern{}, !s.o.Exact, fa, s.o.Extended, cm, !s.o.Literal, s.forward, s.withPos, cacheable, nil, Delimiter{}, revision{}, []rune(query), denylist)
}

func lessRank(a, b Result, tac bool) bool {
	for i := 3; i >= 0; i-- {
		if a.points[i] != b.points[i] {
			return a.points[i] < b.points[i]
		}
	}
	if tac {
		return a.item.Index() > b.item.Index()
	}
	return a.item.Index() < b.item.Index()
}

func genScanSetup(t *rapid.T, maxLines []int) scanSetup {
	var s scanSetup
	s.o, _ = gen.DrawMatchOpts(t)
	var bodies []string
	if s.o.Extended {
		switch rapid.IntRange(0, 9).Draw(t, "queryKind") {
		case 0:
			s.query = ""
		case 1: // negation only
			q := gen.Query(t, 2, false)
			for _, g := range q {
				for i := range g {
					g[i].Inv = true
				}
			}
			s.query = oracle.Render(q, s.o.Exact, nil)
			bodies = gen.Bodies(q)
		default:
			q := gen.Query(t, 3, true)
			s.query = gen.QueryText(t, q, s.o)
			bodies = gen.Bodies(q)
			s.ranked = q.HasPositive()
		}
	} else {
		s.query = string(rapid.SliceOfN(rapid.SampledFrom([]rune("abAB1_ é")), 0, 3).Draw(t, "raw"))
		bodies = []string{s.query}
		s.ranked = strings.TrimSpace(s.query) != "" || s.query != ""
	}
	pool := gen.Lines(t, bodies, 1, 9, 14)
	n := rapid.SampledFrom(maxLines).Draw(t, "n")
	s.lines = make([]string, n)
	for i := range s.lines {
		s.lines[i] = rapid.SampledFrom(pool).Draw(t, "pick")
	}
	s.tiebreak = rapid.SampledFrom(tiebreakLists()).Draw(t, "tiebreak")
	s.forward = rapid.Bool().Draw(t, "forward")
	s.withPos = rapid.Bool().Draw(t, "withPos")
	s.tac = rapid.IntRange(0, 2).Draw(t, "tac") == 0
	s.sort = rapid.IntRange(0, 5).Draw(t, "nosort") > 0
	s.tail = rapid.SampledFrom([]int{0, 0, 0, 1, 50, 99, 100, 101, 150, 210}).Draw(t, "tail")
	return s
}

var scanSizes = []int{0, 1, 5, 60, 99, 100, 101, 199, 200, 201, 330, 450}

func TestVerifC04_ScanMerge(t *testing.T) {
	rapid.Check(t, func(t *rapid.T) {
		s := genScanSetup(t, scanSizes)
		crit, err := parseTiebreak(s.tiebreak)
		if err != nil {
			t.Fatalf("generator: tiebreak %q: %v", s.tiebreak, err)
		}
		sortCriteria = crit
		algo.Init(s.o.Scheme)
		_, chunks := buildChunks(s.lines, s.tail)
		// lines taken off the list with the exclude action (in one case out of three)
		var denylist map[int32]struct{}
		if len(s.lines) > 0 && rapid.IntRange(0, 2).Draw(t, "excluded") == 0 {
			denylist = map[int32]struct{}{}
			for _, i := range rapid.SliceOfN(rapid.IntRange(0, len(s.lines)-1), 1, 4).Draw(t, "excludedLines") {
				denylist[int32(i)] = struct{}{}
			}
		}
		// oracle: every item in isolation, fresh pattern, fresh slab
		var want []Result
		iso := s.pattern(NewChunkCache(), false)
		for _, ch := range chunks {
			for i := 0; i < ch.count; i++ {
				if _, gone := denylist[ch.items[i].Index()]; gone {
					continue
				}
				single := *vItem(ch.items[i].text.ToString(), ch.items[i].Index())
				if r, _, _ := iso.MatchItem(&single, s.withPos, util.MakeSlab(slab16Size, slab32Size)); r != nil {
					rr := *r
					rr.item = &ch.items[i]
					want = append(want, rr)
				}
			}
		}
		sorted := s.sort && s.ranked && !iso.IsEmpty()
		if iso.sortable != (s.ranked && !iso.IsEmpty()) && !iso.IsEmpty() {
			t.Fatalf("%s: the pattern is marked sortable=%v, but the query has %s term that is not negated", s, iso.sortable, map[bool]string{true: "a", false: "no"}[s.ranked])
		}
		if sorted {
			sort.SliceStable(want, func(i, j int) bool { return lessRank(want[i], want[j], s.tac) })
		} else if s.tac {
			for i, j := 0, len(want)-1; i < j; i, j = i+1, j-1 {
				want[i], want[j] = want[j], want[i]
			}
		}
		ties := false
		for i := 1; i < len(want); i++ {
			if want[i].points == want[i-1].points {
				ties = true
			}
		}
		parts := rapid.SampledFrom([]int{1, 2, 3, 7, 8, 32, 40}).Draw(t, "partitions")
		probe := rapid.SampledFrom([]string{"sequential", "reverse", "random", "length-first", "last-first"}).Draw(t, "probe")
		cache := NewChunkCache()
		priorOpposite := rapid.IntRange(0, 2).Draw(t, "priorSearchWithOppositeSort") == 0
		if priorOpposite {
			// toggle-sort: the same query was searched before with the other sort setting, sharing the chunk cache
			m0 := NewMatcher(cache, nil, !s.sort, s.tac, util.NewEventBox(), revision{})
			m0.partitions = parts
			m0.slab = make([]*util.Slab, parts)
			m0.scan(MatchRequest{chunks: chunks, pattern: s.patternFor(cache, true, s.query, denylist), sort: !s.sort})
		}
		// typing: the query without its last (or first) character was searched just before, sharing the chunk cache
		priorShorter := rapid.IntRange(0, 2).Draw(t, "priorSearchWithShorterQuery") == 0
		if rs := []rune(s.query); priorShorter && len(rs) > 1 {
			shorter := string(rs[:len(rs)-1])
			if rapid.Bool().Draw(t, "typedInFront") {
				shorter = string(rs[1:])
			}
			m0 := NewMatcher(cache, nil, s.sort, s.tac, util.NewEventBox(), revision{})
			m0.partitions = parts
			m0.slab = make([]*util.Slab, parts)
			m0.scan(MatchRequest{chunks: chunks, pattern: s.patternFor(cache, true, shorter, denylist), sort: s.sort})
		}
		m := NewMatcher(cache, nil, s.sort, s.tac, util.NewEventBox(), revision{})
		m.partitions = parts
		m.slab = make([]*util.Slab, parts)
		pat := s.patternFor(m.cache, true, s.query, denylist)
		merger, cancelled := m.scan(MatchRequest{chunks: chunks, pattern: pat, sort: s.sort})
		if cancelled || merger == nil {
			t.Fatalf("%s: scan cancelled without a reset", s)
		}
		nonEmptyParts := 0
		for _, l := range merger.lists {
			if len(l) > 0 {
				nonEmptyParts++
			}
		}
		nt := len(want) >= 2 && ties && (nonEmptyParts >= 2 || merger.pass)
		vstat.Case("C04/scan-merge", s.String()+fmt.Sprint(parts, probe, s.lines), nt, fmt.Sprintf("chunks=%d", imin(len(chunks), 5)), fmt.Sprintf("partitions=%d", parts), "probe="+probe,
			fmt.Sprintf("tac=%v", s.tac), fmt.Sprintf("sorted=%v", sorted), fmt.Sprintf("pass=%v", merger.pass), fmt.Sprintf("first_chunk_partial=%v", len(chunks) > 1 && chunks[0].count < chunkSize), fmt.Sprintf("prior_opposite_sort=%v", priorOpposite), fmt.Sprintf("prior_shorter_query=%v", priorShorter), fmt.Sprintf("excluded=%v", denylist != nil))
		if nt && vstat.WantSample("C04/scan-merge") {
			vstat.Sample("C04/scan-merge", map[string]interface{}{"setup": s.String(), "partitions": parts, "probe": probe, "results": len(want)})
		}
		if merger.Length() != len(want) {
			t.Fatalf("%s partitions=%d: %d results, expected %d", s, parts, merger.Length(), len(want))
		}
		n := len(want)
		var order []int
		switch probe {
		case "sequential", "length-first":
			for i := 0; i < n; i++ {
				order = append(order, i)
			}
		case "reverse":
			for i := n - 1; i >= 0; i-- {
				order = append(order, i)
			}
		case "last-first":
			if n > 0 {
				order = append(order, n-1)
			}
			for i := 0; i < n; i++ {
				order = append(order, i)
			}
		case "random":
			k := rapid.IntRange(0, 2*n+1).Draw(t, "nprobes")
			for i := 0; i < k && n > 0; i++ {
				order = append(order, rapid.IntRange(0, n-1).Draw(t, "probeIdx"))
			}
		}
		for _, i := range order {
			got := merger.Get(i)
			if got.item != want[i].item {
				t.Fatalf("%s partitions=%d probe=%s: rank %d is item #%d %q, expected item #%d %q (lines %q)", s, parts, probe, i,
					got.item.Index(), got.item.text.ToString(), want[i].item.Index(), want[i].item.text.ToString(), s.lines)
			}
			if !merger.pass && got.points != want[i].points {
				t.Fatalf("%s partitions=%d: item #%d %q has sort key %v inside the list but %v in isolation", s, parts, got.item.Index(), got.item.text.ToString(), got.points, want[i].points)
			}
		}
	})
}

// Documented meaning of the tiebreak criteria on constructed pairs that
// differ only in that criterion.
func TestVerifC04_TiebreakMeaning(t *testing.T) {
	type pair struct {
		tiebreak, query string
		better, worse   string
		why             string
	}
	pairs := []pair{
		{"length", "ab", "xab", "xab--", "shorter line first"},
		{"length", "ab", "  xab  ", "xabyy", "length ignores surrounding white space"},
		{"begin", "ab", "xabyyy", "xyyyab", "match closer to the beginning first"},
		{"end", "ab", "xyyyab", "xabyyy", "match closer to the end first"},
		{"chunk", "ab", "xab yyyyyy", "xabyyyyyy z", "shorter matched chunk first"},
		{"pathname", "ab", "dir/xab", "xab/dir", "match in the file name first"},
		{"index", "ab", "xab1", "xab2", "earlier line first"},
	}
	for _, p := range pairs {
		for _, order := range [][2]string{{p.better, p.worse}, {p.worse, p.better}} {
			if p.tiebreak == "index" && order[0] != p.better {
				continue
			}
			crit, _ := parseTiebreak(p.tiebreak)
			sortCriteria = crit
			algo.Init("default")
			fwd, withPos := true, false
			switch p.tiebreak {
			case "end":
				fwd = false
			case "chunk":
				withPos = true
			case "pathname":
				fwd, withPos = false, true
			}
			s := scanSetup{lines: []string{order[0], order[1]}, query: p.query, tiebreak: p.tiebreak, forward: fwd, withPos: withPos, sort: true}
			s.o.Extended, s.o.Algo, s.o.Scheme = true, "v2", "default"
			_, chunks := buildChunks(s.lines, 0)
			m := NewMatcher(NewChunkCache(), nil, true, false, util.NewEventBox(), revision{})
			merger, _ := m.scan(MatchRequest{chunks: chunks, pattern: s.pattern(m.cache, false), sort: true})
			vstat.Case("C04/tiebreak-meaning", p.tiebreak+order[0], true, "tiebreak="+p.tiebreak)
			if merger.Length() != 2 {
				t.Errorf("tiebreak=%s query=%q lines=%q: %d results", p.tiebreak, p.query, s.lines, merger.Length())
				continue
			}
			if got := merger.Get(0).item.text.ToString(); got != p.better {
				a, b := merger.Get(0), merger.Get(1)
				if a.points[3] == b.points[3] {
					t.Errorf("tiebreak=%s query=%q lines=%q: %q ranked first, expected %q (%s)", p.tiebreak, p.query, s.lines, got, p.better, p.why)
				} else {
					t.Errorf("harness: pair %q/%q for %s does not have equal scores (%v %v)", p.better, p.worse, p.tiebreak, a.points, b.points)
				}
			}
		}
	}
}

// The sort key of the tiebreak criteria with a natural definition, computed
// from the match offsets of ALL terms of the query (union of the matched
// regions): chunk = length of the white-space delimited chunk around the whole
// matched region, length = trimmed length, pathname = distance of the match
// from the last path separator; end = ordering by the relative position of the
// end of the matched region.
func sat16(n int) uint16 {
	if n > 65535 {
		return 65535
	}
	return uint16(n)
}

func TestVerifC04_TiebreakKeys(t *testing.T) {
	rapid.Check(t, func(t *rapid.T) {
		algo.Init("default")
		crit := rapid.SampledFrom([]string{"chunk", "length", "pathname", "end"}).Draw(t, "criterion")
		cl, _ := parseTiebreak(crit)
		sortCriteria = cl
		nterms := rapid.IntRange(1, 3).Draw(t, "nterms")
		var terms []string
		for i := 0; i < nterms; i++ {
			terms = append(terms, string(rapid.SliceOfN(rapid.SampledFrom([]rune("abc")), 1, 2).Draw(t, "term")))
		}
		query := strings.Join(terms, " ")
		forward := crit != "end" && crit != "pathname"
		pat := BuildPattern(NewChunkCache(), map[string]*Pattern{}, true, algo.FuzzyMatchV2, true, CaseSmart, true, forward, true, false, nil, Delimiter{}, revision{}, []rune(query), nil)
		type keyed struct {
			text       string
			key        uint16
			minB, maxE int
			frac       float64
			score      uint16
		}
		var items []keyed
		nitems := rapid.IntRange(1, 3).Draw(t, "nitems")
		for k := 0; k < nitems; k++ {
			text := string(rapid.SliceOfN(rapid.SampledFrom([]rune("abc  xy/_-")), 1, 18).Draw(t, "text"))
			huge := false
			if (crit == "length" || crit == "chunk") && rapid.IntRange(0, 11).Draw(t, "huge") == 0 {
				// lines around and beyond the 16-bit limit of the sort keys (keys saturate at 65535)
				total := rapid.SampledFrom([]int{65534, 65535, 65536, 65537, 65546, 70000, 131080}).Draw(t, "hugeLen")
				text += strings.Repeat("z", total-len(text))
				huge = true
			}
			item := vItem(text, int32(k))
			res, offsets, _ := pat.MatchItem(item, true, util.MakeSlab(slab16Size, slab32Size))
			if res == nil {
				continue
			}
			runes := []rune(text)
			minB, maxE, valid := 1<<30, 0, false
			for _, o := range offsets {
				b, e := int(o[0]), int(o[1])
				if b < e {
					valid = true
					if b < minB {
						minB = b
					}
					if e > maxE {
						maxE = e
					}
				}
			}
			if !valid {
				continue
			}
			got := res.points[2] // [score, criterion] -> points[3], points[2]
			lead := 0
			for lead < len(runes) && lead != minB && (runes[lead] == ' ' || runes[lead] == '\t') {
				lead++
			}
			trimLen := len([]rune(strings.TrimSpace(text)))
			var want uint16
			switch crit {
			case "chunk":
				b, e := minB, maxE
				for b >= 1 && runes[b-1] != ' ' {
					b--
				}
				for e < len(runes) && runes[e] != ' ' {
					e++
				}
				want = sat16(e - b)
			case "length":
				want = sat16(trimLen)
			case "pathname":
				last := strings.LastIndexByte(text, '/')
				if last <= minB { // text is ASCII here
					want = uint16(minB - last)
				} else {
					want = 65535
				}
			}
			nested := false
			if len(offsets) >= 2 {
				for i := range offsets {
					for j := range offsets {
						if i != j && offsets[i][0] <= offsets[j][0] && offsets[j][1] < offsets[i][1] {
							nested = true
						}
					}
				}
			}
			if huge {
				vstat.Label("C04/tiebreak-keys", "line_beyond_16_bits")
				text = fmt.Sprintf("%s...(%d characters)", text[:24], len(text))
			}
			vstat.Case("C04/tiebreak-keys", crit+"|"+query+"|"+text, len(offsets) >= 2, "criterion="+crit, fmt.Sprintf("terms=%d", len(offsets)), fmt.Sprintf("nested=%v", nested))
			if crit != "end" && got != want {
				t.Fatalf("--tiebreak=%s query %q line %q (term offsets %v, matched region [%d,%d)): key %d, the documented criterion gives %d", crit, query, text, offsets, minB, maxE, got, want)
			}
			items = append(items, keyed{text, got, minB, maxE, float64(maxE-lead) / float64(trimLen+1), res.points[3]})
		}
		if crit == "end" {
			for i := range items {
				for j := range items {
					a, b := items[i], items[j]
					if a.frac > b.frac+0.001 && !(a.key < b.key) {
						t.Fatalf("--tiebreak=end query %q: line %q (matched region ends at %d, relative %.3f) must rank before %q (ends at %d, relative %.3f) but the keys are %d and %d", query, a.text, a.maxE, a.frac, b.text, b.maxE, b.frac, a.key, b.key)
					}
				}
			}
		}
	})
}

// The order across a history of searches on one input, through the matcher's own loop (which
// keeps the lists it published per query): a few queries are searched again and again while
// sorting is switched off and on (toggle-sort). Every published list is in the order that the
// query and the sort setting of its request dictate - rank order when sorting is on, input order
// when it is off - however the query was searched before.
func TestVerifC04_OrderAcrossQueryHistory(t *testing.T) {
	rapid.Check(t, func(t *rapid.T) {
		algo.Init("default")
		sortCriteria = []criterion{byScore, byLength}
		tac := rapid.IntRange(0, 3).Draw(t, "tac") == 0
		h := &loopHarness{t: t, tac: tac, stopCh: make(chan struct{}), done: make(chan struct{})}
		idx := int32(0)
		cache := NewChunkCache()
		h.cl = NewChunkList(cache, func(item *Item, data []byte) bool {
			item.text = util.ToChars(data)
			item.text.Index = idx
			idx++
			return true
		})
		patternCache := map[string]*Pattern{}
		var pcMu sync.Mutex
		build := func(c *ChunkCache, pc map[string]*Pattern, cacheable bool, q string) *Pattern {
			return BuildPattern(c, pc, true, algo.FuzzyMatchV2, true, CaseSmart, true, true, false, cacheable, nil, Delimiter{}, revision{}, []rune(q), nil)
		}
		h.mk = func(q string) func(*ChunkCache, bool) *Pattern {
			return func(c *ChunkCache, cacheable bool) *Pattern { return build(c, map[string]*Pattern{}, cacheable, q) }
		}
		h.eventBox = util.NewEventBox()
		sortOn := rapid.Bool().Draw(t, "sortAtStart")
		h.matcher = NewMatcher(cache, func(runes []rune) *Pattern {
			pcMu.Lock()
			defer pcMu.Unlock()
			return build(cache, patternCache, true, string(runes))
		}, sortOn, tac, h.eventBox, revision{})
		h.matcher.partitions = rapid.SampledFrom([]int{1, 2, 3, 8}).Draw(t, "partitions")
		h.matcher.slab = make([]*util.Slab, h.matcher.partitions)
		go h.matcher.Loop()
		go h.consume()
		defer func() {
			h.matcher.Stop()
			h.eventBox.Set(EvtQuit, nil)
			<-h.done
		}()
		queries := rapid.SampledFrom([][]string{{"a", "ab", "b"}, {"a", "ab", ""}, {"b", "ba", "!a"}, {"a", "a b", "ab"}}).Draw(t, "queries")
		n := rapid.SampledFrom([]int{40, 100, 150, 200, 320}).Draw(t, "n")
		// few matching lines per chunk (lists of at most 20 matches of a full chunk are kept per chunk
		// and reused) or many
		density := rapid.SampledFrom([]int{4, 10, 18, 50, 100}).Draw(t, "density")
		for _, l := range gen.Lines(t, queries[:2], n, n, 14) {
			if rapid.IntRange(0, 99).Draw(t, "hit") >= density {
				l = "~~~"
			}
			h.cl.Push([]byte(l))
		}
		var trace []string
		q := ""
		revisitedAfterToggle := false
		searchedUnder := map[string]bool{} // query -> sort setting it was last searched under
		steps := rapid.IntRange(3, 10).Draw(t, "steps")
		for i := 0; i < steps; i++ {
			if rapid.IntRange(0, 3).Draw(t, "toggleSort") == 0 {
				sortOn = !sortOn
				trace = append(trace, fmt.Sprintf("toggle-sort -> %v", sortOn))
			} else {
				q = rapid.SampledFrom(queries).Draw(t, "query")
				trace = append(trace, fmt.Sprintf("query %q", q))
			}
			if was, seen := searchedUnder[q]; seen && was != sortOn {
				revisitedAfterToggle = true
			}
			searchedUnder[q] = sortOn
			h.reset(q, true, true, sortOn)
			h.mu.Lock()
			last := h.requests[len(h.requests)-1]
			h.mu.Unlock()
			want := h.oracle(last)
			var got *Merger
			why := ""
			ok := waitUntil(60*time.Second, func() bool {
				h.mu.Lock()
				defer h.mu.Unlock()
				if len(h.seen) == 0 {
					return false
				}
				got = h.seen[len(h.seen)-1]
				why = sameResults(mergerResults(got), want, false)
				return why == ""
			})
			if !ok {
				t.Fatalf("history %v (sorting %v, --tac %v, %d lines): the list published for %q is not in the order its request dictates: %s", trace, sortOn, tac, n, q, why)
			}
		}
		vstat.Case("C04/order-across-query-history", fmt.Sprint(trace, n, tac), revisitedAfterToggle, fmt.Sprintf("revisited_after_toggle=%v", revisitedAfterToggle), fmt.Sprintf("tac=%v", tac))
		if revisitedAfterToggle && vstat.WantSample("C04/order-across-query-history") {
			vstat.Sample("C04/order-across-query-history", map[string]interface{}{"history": trace, "lines": n})
		}
	})
}
