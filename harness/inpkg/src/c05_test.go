//go:build verif

package fzf

import (
	"fmt"
	"strings"
	"testing"

	"github.com/junegunn/fzf/src/algo"
	"github.com/junegunn/fzf/src/util"
	"pgregory.net/rapid"
	"verif.local/vstat"
)

// C05 - the result for (line, query, options) does not depend on what was
// evaluated before, at the level of Pattern.MatchItem: items keep per-item
// caches (the --nth tokens, the trimmed length) that later patterns see.
// A history of patterns is applied to one set of items the way the
// coordinator does it (a change of --nth or of the denylist bumps the minor
// revision, a reload the major one and replaces the items); every result
// must equal the result on items nobody has looked at before.
func propC05ItemCaches(t *rapid.T) {
	algo.Init("default")
	sortCriteria = []criterion{byScore, byLength}
	ds := mkDelimSpec(rapid.SampledFrom([]string{"", ",", ":", "[,;]+"}).Draw(t, "delim"))
	sep := map[string]string{"": " ", ",": ",", ":": ":", "[,;]+": ";"}[ds.arg]
	n := rapid.IntRange(1, 6).Draw(t, "nitems")
	lines := make([]string, n)
	for i := range lines {
		nf := rapid.IntRange(1, 4).Draw(t, "nfields")
		var fs []string
		for j := 0; j < nf; j++ {
			fs = append(fs, string(rapid.SliceOfN(rapid.SampledFrom([]rune("abcx")), 0, 3).Draw(t, "field")))
		}
		lines[i] = strings.Join(fs, sep)
	}
	mkItems := func() []*Item {
		items := make([]*Item, n)
		for i, l := range lines {
			items[i] = vItem(l, int32(i))
		}
		return items
	}
	shared := mkItems()
	rev := revision{}
	slab := util.MakeSlab(slab16Size, slab32Size)
	nsteps := rapid.IntRange(2, 6).Draw(t, "steps")
	var history []string
	nthChanges := 0
	prevNth := "-"
	for s := 0; s < nsteps; s++ {
		nthArg := rapid.SampledFrom([]string{"", "1", "2", "-1", "2..", "..2", "1,3"}).Draw(t, "nth")
		query := rapid.SampledFrom([]string{"a", "b", "ab", "c", "^a", "b$", "!a", "a b", "x"}).Draw(t, "query")
		if prevNth != "-" && nthArg != prevNth {
			// what the coordinator does for change-nth
			rev.bumpMinor()
			nthChanges++
		}
		if rapid.IntRange(0, 9).Draw(t, "reload") == 0 {
			rev.bumpMajor()
			shared = mkItems()
			history = append(history, "reload")
		}
		prevNth = nthArg
		var nth []Range
		if nthArg != "" {
			var err error
			if nth, err = splitNth(nthArg); err != nil {
				t.Fatalf("harness: %v", err)
			}
		}
		history = append(history, fmt.Sprintf("nth=%q query=%q rev=%v", nthArg, query, rev))
		build := func() *Pattern {
			return BuildPattern(NewChunkCache(), map[string]*Pattern{}, true, algo.FuzzyMatchV2, true, CaseSmart, true, true, true, false, nth, ds.d, rev, []rune(query), nil)
		}
		pShared, pFresh := build(), build()
		fresh := mkItems()
		for i := range shared {
			r1, o1, _ := pShared.MatchItem(shared[i], true, slab)
			r2, o2, _ := pFresh.MatchItem(fresh[i], true, nil)
			d1, d2 := describeMatch(r1, o1), describeMatch(r2, o2)
			if d1 != d2 {
				t.Fatalf("line %q (delimiter %q): after the history\n  %s\nthe item that was matched before gives %s, an item nobody has matched gives %s", lines[i], ds.arg, strings.Join(history, "\n  "), d1, d2)
			}
		}
	}
	vstat.Case("C05/item-caches", strings.Join(lines, "|")+"#"+strings.Join(history, "#"), nthChanges >= 1, fmt.Sprintf("nth_changes=%d", imin(nthChanges, 3)), "delim="+ds.arg)
	if nthChanges >= 1 && vstat.WantSample("C05/item-caches") {
		vstat.Sample("C05/item-caches", map[string]interface{}{"lines": lines, "history": history})
	}
}

func describeMatch(r *Result, offsets []Offset) string {
	if r == nil {
		return "no match"
	}
	return fmt.Sprintf("match points=%v offsets=%v", r.points, offsets)
}

func TestVerifC05_ItemCaches(t *testing.T) {
	rapid.Check(t, propC05ItemCaches)
}

// The chunk-level history relation: what a query finds in a chunk does not
// depend on which queries were evaluated on that chunk before (the per-chunk
// result cache is shared by all of them).
func TestVerifC05_ChunkCacheHistory(t *testing.T) {
	rapid.Check(t, func(t *rapid.T) { cacheMachineProp(t, "C05/chunk-cache-history") })
}
