//go:build verif

package fzf

import (
	"fmt"
	"strings"
	"testing"

	"github.com/junegunn/fzf/src/algo"
	"github.com/junegunn/fzf/src/util"
	"pgregory.net/rapid"
	"verif.local/vstat"
)

// C05 - the result for (line, query, options) does not depend on what was
// evaluated before, at the level of Pattern.MatchItem: items keep per-item
// caches (the --nth tokens, the trimmed length) that later patterns see.
// A history of patterns is applied to one set of items the way the
// coordinator does it (a change of --nth or of the denylist bumps the minor
// revision, a reload the major one and replaces the items); every result
// must equal the result on items nobody has looked at before.
func propC05ItemCaches(t *rapid.T) {
	algo.Init("default")
	sortCriteria = []criterion{byScore, byLength}
	ds := mkDelimSpec(rapid.SampledFrom([]string{"", ",", ":", "[,;]+"}).Draw(t, "delim"))
	sep := map[string]string{"": " ", ",": ",", ":": ":", "[,;]+": ";"}[ds.arg]
	n := rapid.IntRange(1, 6).Draw(t, "nitems")
	lines := make([]string, n)
	for i := range lines {
		nf := rapid.IntRange(1, 4).Draw(t, "nfields")
		var fs []string
		for j := 0; j < nf; j++ {
			fs = append(fs, string(rapid.SliceOfN(rapid.SampledFrom([]rune("abcx")), 0, 3).Draw(t, "field")))
		}
		lines[i] = strings.Join(fs, sep)
	}
	mkItems := func() []*Item {
		items := make([]*Item, n)
		for i, l := range lines {
			items[i] = vItem(l, int32(i))
		}
		return items
	}
	shared := mkItems()
	rev := revision{}
	slab := util.MakeSlab(slab16Size, slab32Size)
	nsteps := rapid.IntRange(2, 6).Draw(t, "steps")
	var history []string
	nthChanges := 0
	prevNth := "-"
	for s := 0; s < nsteps; s++ {
		nthArg := rapid.SampledFrom([]string{"", "1", "2", "-1", "2..", "..2", "1,3"}).Draw(t, "nth")
		query := rapid.SampledFrom([]string{"a", "b", "ab", "c", "^a", "b$", "!a", "a b", "x"}).Draw(t, "query")
		if prevNth != "-" && nthArg != prevNth {
			// what the coordinator does for change-nth
			rev.bumpMinor()
			nthChanges++
		}
		if rapid.IntRange(0, 9).Draw(t, "reload") == 0 {
			rev.bumpMajor()
			shared = mkItems()
			history = append(history, "reload")
		}
		prevNth = nthArg
		var nth []Range
		if nthArg != "" {
			var err error
			if nth, err = splitNth(nthArg); err != nil {
				t.Fatalf("harness: %v", err)
			}
		}
		history = append(history, fmt.Sprintf("nth=%q query=%q rev=%v", nthArg, query, rev))
		build := func() *Pattern {
			return BuildPattern(NewChunkCache(), map[string]*Pattern{}, true, algo.FuzzyMatchV2, true, CaseSmart, true, true, true, false, nth, ds.d, rev, []rune(query), nil)
		}
		pShared, pFresh := build(), build()
		fresh := mkItems()
		for i := range shared {
			r1, o1, _ := pShared.MatchItem(shared[i], true, slab)
			r2, o2, _ := pFresh.MatchItem(fresh[i], true, nil)
			d1, d2 := describeMatch(r1, o1), describeMatch(r2, o2)
			if d1 != d2 {
				t.Fatalf("line %q (delimiter %q): after the history\n  %s\nthe item that was matched before gives %s, an item nobody has matched gives %s", lines[i], ds.arg, strings.Join(history, "\n  "), d1, d2)
			}
		}
	}
	vstat.Case("C05/item-caches", strings.Join(lines, "|")+"#"+strings.Join(history, "#"), nthChanges >= 1, fmt.Sprintf("nth_changes=%d", imin(nthChanges, 3)), "delim="+ds.arg)
	if nthChanges >= 1 && vstat.WantSample("C05/item-caches") {
		vstat.Sample("C05/item-caches", map[string]interface{}{"lines": lines, "history": history})
	}
}

func describeMatch(r *Result, offsets []Offset) string {
	if r == nil {
		return "no match"
	}
	return fmt.Sprintf("match points=%v offsets=%v", r.points, offsets)
}

func TestVerifC05_ItemCaches(t *testing.T) {
	rapid.Check(t, propC05ItemCaches)
}

// The chunk-level history relation: what a query finds in a chunk does not
// depend on which queries were evaluated on that chunk before (the per-chunk
// result cache is shared by all of them).
func TestVerifC05_ChunkCacheHistory(t *testing.T) {
	rapid.Check(t, func(t *rapid.T) { cacheMachineProp(t, "C05/chunk-cache-history") })
}

// The same search twice through one matcher (the matcher keeps scratch memory per worker between
// searches): the ranked list of the second and third search equals that of the first, also when
// the list holds lines so long that the optimal algorithm hands over to the greedy one.
func TestVerifC05_SameSearchAgain(t *testing.T) {
	rapid.Check(t, func(t *rapid.T) {
		algo.Init("default")
		sortCriteria = []criterion{byScore, byLength}
		pat := rapid.SampledFrom([]string{"ab", "abc", "ba"}).Draw(t, "query")
		n := rapid.IntRange(2, 6).Draw(t, "nlines")
		lines := make([]string, n)
		long := 0
		for i := range lines {
			tlen := rapid.SampledFrom([]int{40, 300, 30000, 52000, 60000, 110000}).Draw(t, "len")
			text := []rune(strings.Repeat("x", tlen))
			// a scattered occurrence first, a contiguous one later: the two algorithms disagree
			p1 := rapid.IntRange(0, tlen/3).Draw(t, "scatteredAt")
			for k, r := range pat {
				if p1+k*7 < tlen {
					text[p1+k*7] = r
				}
			}
			if rapid.Bool().Draw(t, "contiguousToo") {
				p2 := rapid.IntRange(tlen/2, tlen-len(pat)).Draw(t, "contiguousAt")
				copy(text[p2:], []rune(pat))
			}
			if tlen*len(pat) > 100*1024 {
				long++
			}
			lines[i] = string(text)
		}
		_, chunks := buildChunks(lines, 0)
		cache := NewChunkCache()
		m := NewMatcher(cache, nil, true, false, util.NewEventBox(), revision{})
		m.partitions = rapid.SampledFrom([]int{1, 2, 8}).Draw(t, "partitions")
		m.slab = make([]*util.Slab, m.partitions)
		mk := func(q string) *Pattern {
			return BuildPattern(cache, map[string]*Pattern{}, true, algo.FuzzyMatchV2, true, CaseSmart, true, true, false, false, nil, Delimiter{}, revision{}, []rune(q), nil)
		}
		describeList := func(mg *Merger) string {
			var sb strings.Builder
			for i := 0; i < mg.Length(); i++ {
				r := mg.Get(i)
				fmt.Fprintf(&sb, "#%d%v ", r.item.Index(), r.points)
			}
			return sb.String()
		}
		var first string
		rounds := rapid.IntRange(2, 4).Draw(t, "searches")
		for r := 0; r < rounds; r++ {
			if r > 0 && rapid.Bool().Draw(t, "otherQueryBetween") {
				m.scan(MatchRequest{chunks: chunks, pattern: mk("x"), sort: true})
			}
			mg, cancelled := m.scan(MatchRequest{chunks: chunks, pattern: mk(pat), sort: true})
			if cancelled || mg == nil {
				t.Fatalf("scan cancelled")
			}
			got := describeList(mg)
			if r == 0 {
				first = got
			} else if got != first {
				lens := make([]int, len(lines))
				for i, l := range lines {
					lens[i] = len(l)
				}
				t.Fatalf("query %q over lines of %v characters (%d workers): search %d gives the ranked list (item, sort key)\n  %s\nthe first search gave\n  %s", pat, lens, m.partitions, r+1, got, first)
			}
		}
		vstat.Case("C05/same-search-again", fmt.Sprintf("%q|%q|%d", pat, fmt.Sprint(len(lines), long), m.partitions)+fmt.Sprint(lines[0][:20]), long > 0, fmt.Sprintf("long_lines=%d", imin(long, 3)), fmt.Sprintf("searches=%d", rounds))
	})
}
