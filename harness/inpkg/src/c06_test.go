//go:build verif

package fzf

import (
	"bytes"
	"fmt"
	"io"
	"testing"

	"github.com/junegunn/fzf/src/util"
	"pgregory.net/rapid"
	"verif.local/oracle"
	"verif.local/vstat"
)

// C06 - every input record becomes exactly one item, in order, unaltered.

// scriptedReader behaves like *os.File: (n>0, nil)* then (0, io.EOF), with a
// few (0, nil) results interleaved; the sizes of the reads are scripted.
type scriptedReader struct {
	data    []byte
	cuts    []int // absolute cut positions (sorted); reads never cross the next cut
	pos     int
	zeros   map[int]int // position -> number of (0,nil) reads before the next data
	reads   int
	maxRead int
}

func (s *scriptedReader) Read(p []byte) (int, error) {
	if s.pos >= len(s.data) {
		return 0, io.EOF
	}
	if s.zeros[s.pos] > 0 {
		s.zeros[s.pos]--
		return 0, nil
	}
	end := len(s.data)
	for _, c := range s.cuts {
		if c > s.pos {
			end = c
			break
		}
	}
	n := end - s.pos
	if n > len(p) {
		n = len(p)
	}
	copy(p, s.data[s.pos:s.pos+n])
	s.pos += n
	s.reads++
	if n > s.maxRead {
		s.maxRead = n
	}
	return n, nil
}

func genStream(t *rapid.T, delim byte, allowBig bool) (stream []byte, lens []int) {
	nrec := rapid.IntRange(0, 14).Draw(t, "nrec")
	other := byte(0)
	if delim == 0 {
		other = '\n'
	}
	for i := 0; i < nrec; i++ {
		var l int
		switch rapid.IntRange(0, 11).Draw(t, "lenClass") {
		case 0, 1:
			l = 0
		case 2:
			if allowBig {
				l = rapid.SampledFrom([]int{65534, 65535, 65536, 65537, 131071, 131072, 131073, 70000, 200000, 262144}).Draw(t, "big")
			} else {
				l = rapid.IntRange(100, 400).Draw(t, "mid")
			}
		case 3:
			l = 1
		default:
			l = rapid.IntRange(0, 40).Draw(t, "len")
		}
		rec := make([]byte, l)
		fill := rapid.SampledFrom([]string{"abc", "a\rb", "x" + string([]byte{other}) + "y", "é漢", " \t", "0123456789", "a\uFFFDb", "\uFFFD"}).Draw(t, "fill") // (U+FFFD itself is a valid character of the input)
		for k := range rec {
			rec[k] = fill[(k+i)%len(fill)]
		}
		// keep multi-byte sequences whole where it matters only for readability; bytes are bytes
		for k := range rec {
			if rec[k] == delim {
				rec[k] = 'z'
			}
		}
		lens = append(lens, l)
		stream = append(stream, rec...)
		if i < nrec-1 || rapid.IntRange(0, 2).Draw(t, "terminated") > 0 {
			stream = append(stream, delim)
		}
	}
	return
}

func genCuts(t *rapid.T, stream []byte, delim byte) ([]int, map[int]int) {
	mode := rapid.SampledFrom([]string{"none", "every-byte", "random", "around-delims", "at-delims", "big-blocks"}).Draw(t, "cutMode")
	set := map[int]bool{}
	switch mode {
	case "every-byte":
		if len(stream) <= 3000 {
			for i := 1; i < len(stream); i++ {
				set[i] = true
			}
		} else {
			for i := 1; i < 300; i++ {
				set[i] = true
				set[len(stream)-i] = true
			}
		}
	case "random":
		n := rapid.IntRange(1, 40).Draw(t, "ncuts")
		for i := 0; i < n && len(stream) > 1; i++ {
			set[rapid.IntRange(1, len(stream)-1).Draw(t, "cut")] = true
		}
	case "around-delims", "at-delims":
		for i, b := range stream {
			if b == delim {
				if mode == "at-delims" {
					set[i] = true   // delimiter is the first byte of a read
					set[i+1] = true // delimiter is the last byte of a read
				} else {
					set[i+rapid.IntRange(-2, 2).Draw(t, "delta")] = true
				}
			}
		}
	case "big-blocks":
		for c := 65536; c < len(stream); c += rapid.SampledFrom([]int{65536, 65535, 65537, 131072, 40000}).Draw(t, "block") {
			set[c] = true
		}
	}
	var cuts []int
	for c := 1; c < len(stream); c++ {
		if set[c] {
			cuts = append(cuts, c)
		}
	}
	zeros := map[int]int{}
	nz := rapid.IntRange(0, 3).Draw(t, "nzero")
	for i := 0; i < nz && len(stream) > 0; i++ {
		zeros[rapid.IntRange(0, len(stream)-1).Draw(t, "zeroAt")] = rapid.IntRange(1, 3).Draw(t, "zeroN")
	}
	// (0,nil) results are only observed at read boundaries
	for z := range zeros {
		if z != 0 && !set[z] {
			delete(zeros, z)
		}
	}
	return cuts, zeros
}

func feedCheck(t *rapid.T, allowBig bool, unit string) {
	nul := rapid.Bool().Draw(t, "read0")
	delim := byte('\n')
	if nul {
		delim = 0
	}
	stream, lens := genStream(t, delim, allowBig)
	cuts, zeros := genCuts(t, stream, delim)
	want := oracle.SplitRecords(stream, delim)
	var got [][]byte  // copies taken at push time
	var kept [][]byte // the slices themselves, re-read after the stream ended
	r := NewReader(func(b []byte) bool {
		cp := make([]byte, len(b))
		copy(cp, b)
		got = append(got, cp)
		kept = append(kept, b)
		return true
	}, util.NewEventBox(), util.NewExecutor(""), nul, false)
	src := &scriptedReader{data: stream, cuts: cuts, zeros: zeros}
	r.feed(src)
	straddle, delimEdge := false, false
	pos := 0
	cutSet := map[int]bool{}
	for _, c := range cuts {
		cutSet[c] = true
	}
	// a 64 KiB buffer clips reads: every multiple of what was actually read counts as a boundary too
	for _, l := range lens {
		for c := pos + 1; c < pos+l; c++ {
			if cutSet[c] {
				straddle = true
				break
			}
		}
		if l > 65536 {
			straddle = true
		}
		if cutSet[pos+l] || cutSet[pos+l+1] {
			delimEdge = true
		}
		pos += l + 1
	}
	nt := straddle || delimEdge
	labels := []string{fmt.Sprintf("read0=%v", nul), fmt.Sprintf("straddle=%v", straddle), fmt.Sprintf("delimEdge=%v", delimEdge)}
	if len(stream) > 131072 {
		labels = append(labels, "multi_slab")
	}
	vstat.Case(unit, fmt.Sprintf("%d|%v|%v|%v", len(stream), lens, cuts, nul), nt, labels...)
	if nt && vstat.WantSample(unit) {
		vstat.Sample(unit, map[string]interface{}{"stream_bytes": len(stream), "record_lengths": lens, "ncuts": len(cuts), "reads": src.reads, "read0": nul})
	}
	if len(got) != len(want) {
		t.Fatalf("stream of %d bytes (record lengths %v, read0=%v, %d cuts): %d items, expected %d records", len(stream), lens, nul, len(cuts), len(got), len(want))
	}
	for i := range want {
		if !bytes.Equal(got[i], want[i]) {
			t.Fatalf("record %d (length %d) arrived altered: got %d bytes %q..., want %q... (record lengths %v, cuts %v)", i, len(want[i]), len(got[i]), head(got[i]), head(want[i]), lens, headInts(cuts))
		}
		if !bytes.Equal(kept[i], want[i]) {
			t.Fatalf("record %d was overwritten after it had been delivered (record lengths %v, cuts %v)", i, lens, headInts(cuts))
		}
	}
}

func head(b []byte) []byte {
	if len(b) > 24 {
		return b[:24]
	}
	return b
}

func headInts(a []int) []int {
	if len(a) > 30 {
		return a[:30]
	}
	return a
}

func TestVerifC06_FeedSmall(t *testing.T) {
	rapid.Check(t, func(t *rapid.T) { feedCheck(t, false, "C06/feed-small") })
}

func TestVerifC06_FeedLarge(t *testing.T) {
	rapid.Check(t, func(t *rapid.T) { feedCheck(t, true, "C06/feed-large") })
}

// ChunkList state machine: push / snapshot(tail) against a list model.
func TestVerifC06_ChunkListMachine(t *testing.T) {
	rapid.Check(t, func(t *rapid.T) {
		tail := rapid.SampledFrom([]int{0, 0, 1, 3, 50, 99, 100, 101, 150, 250}).Draw(t, "tail")
		next := int32(0)
		cl := NewChunkList(NewChunkCache(), func(item *Item, data []byte) bool {
			if len(data) > 0 && data[0] == '#' {
				return false // diverted (as a header line would be)
			}
			item.text = util.ToChars(data)
			item.text.Index = next
			next++
			return true
		})
		type rec struct {
			text  string
			index int32
		}
		var model []rec
		total := int32(0)
		nsteps := rapid.IntRange(1, 12).Draw(t, "steps")
		trace := []string{fmt.Sprintf("tail=%d", tail)}
		partialSnap, trimmed := false, false
		for s := 0; s < nsteps; s++ {
			if rapid.IntRange(0, 2).Draw(t, "op") < 2 {
				n := rapid.SampledFrom([]int{1, 2, 7, 50, 99, 100, 101, 230}).Draw(t, "npush")
				for i := 0; i < n; i++ {
					txt := fmt.Sprintf("item-%d", total)
					if rapid.IntRange(0, 19).Draw(t, "diverted") == 0 {
						txt = "#" + txt
					}
					ok := cl.Push([]byte(txt))
					if ok != (txt[0] != '#') {
						t.Fatalf("Push(%q) returned %v", txt, ok)
					}
					if ok {
						model = append(model, rec{txt, total})
						total++
					}
				}
				trace = append(trace, fmt.Sprintf("push %d", n))
			} else {
				snap, count, _ := cl.Snapshot(tail)
				if tail > 0 && len(model) > tail {
					model = model[len(model)-tail:]
					trimmed = true
				}
				trace = append(trace, fmt.Sprintf("snapshot -> %d items in %d chunks", count, len(snap)))
				if count != len(model) {
					t.Fatalf("%v: snapshot reports %d items, model has %d", trace, count, len(model))
				}
				if CountItems(snap) != count {
					t.Fatalf("%v: CountItems=%d but Snapshot count=%d", trace, CountItems(snap), count)
				}
				k := 0
				for ci, ch := range snap {
					if ch.count < chunkSize && ci == len(snap)-1 {
						partialSnap = true
					}
					if ch.count < 0 || ch.count > chunkSize {
						t.Fatalf("%v: chunk %d has count %d", trace, ci, ch.count)
					}
					if ci > 0 && ci < len(snap)-1 && ch.count != chunkSize {
						t.Fatalf("%v: interior chunk %d is not full (%d)", trace, ci, ch.count)
					}
					for i := 0; i < ch.count; i++ {
						it := &ch.items[i]
						if k >= len(model) || it.text.ToString() != model[k].text || it.Index() != model[k].index {
							t.Fatalf("%v: snapshot item %d is %q (index %d), model has %q (index %d)", trace, k, it.text.ToString(), it.Index(), model[min(k, len(model)-1)].text, model[min(k, len(model)-1)].index)
						}
						k++
					}
				}
				// a snapshot is frozen: later pushes must not show through
				cl.Push([]byte("later"))
				model = append(model, rec{"later", total})
				total++
				if CountItems(snap) != count {
					t.Fatalf("%v: a push after the snapshot changed the snapshot's item count", trace)
				}
				k = 0
				for _, ch := range snap {
					k += ch.count
				}
				if k != count {
					t.Fatalf("%v: a push after the snapshot changed the snapshot's chunks (%d vs %d)", trace, k, count)
				}
			}
		}
		vstat.Case("C06/chunklist", fmt.Sprint(trace), partialSnap && (tail == 0 || trimmed), fmt.Sprintf("tail=%d", tail))
	})
}

func min(a, b int) int {
	if a < b {
		return a
	}
	return b
}
