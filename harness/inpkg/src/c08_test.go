//go:build verif

package fzf

import (
	"fmt"
	"sort"
	"strings"
	"sync"
	"testing"
	"time"

	"github.com/junegunn/fzf/src/algo"
	"github.com/junegunn/fzf/src/util"
	"pgregory.net/rapid"
	"verif.local/vstat"
)

// C08 (in-package) - result caches, incremental narrowing, cancellation of
// superseded searches and request coalescing are never observable.

func resultsString(rs []Result) string {
	var sb strings.Builder
	for _, r := range rs {
		fmt.Fprintf(&sb, "%d:%v,", r.item.Index(), r.points)
	}
	return sb.String()
}

// sequentialOracle: plain filter of a frozen snapshot with a cache-less pattern.
func sequentialOracle(chunks []*Chunk, mk func(cache *ChunkCache, cacheable bool) *Pattern, sorted bool, tac bool) []Result {
	p := mk(NewChunkCache(), false)
	slab := util.MakeSlab(slab16Size, slab32Size)
	var out []Result
	if p.IsEmpty() {
		for _, ch := range chunks {
			for i := 0; i < ch.count; i++ {
				out = append(out, Result{item: &ch.items[i]})
			}
		}
	} else {
		for _, ch := range chunks {
			for i := 0; i < ch.count; i++ {
				// private copy built from the immutable parts only (text bytes, index): the
				// matcher may be caching trim lengths / transformed tokens in the shared item
				it := *vItem(ch.items[i].text.ToString(), ch.items[i].Index())
				if r, _, _ := p.MatchItem(&it, p.withPos, slab); r != nil {
					rr := *r
					rr.item = &ch.items[i]
					out = append(out, rr)
				}
			}
		}
	}
	if sorted && p.sortable && !p.IsEmpty() {
		sort.SliceStable(out, func(i, j int) bool { return lessRank(out[i], out[j], tac) })
	} else if tac {
		for i, j := 0, len(out)-1; i < j; i, j = i+1, j-1 {
			out[i], out[j] = out[j], out[i]
		}
	}
	return out
}

func mergerResults(m *Merger) []Result {
	out := make([]Result, m.Length())
	for i := range out {
		out[i] = m.Get(i)
	}
	return out
}

func sameResults(a, b []Result, comparePoints bool) string {
	if len(a) != len(b) {
		return fmt.Sprintf("%d results vs %d", len(a), len(b))
	}
	for i := range a {
		if a[i].item.Index() != b[i].item.Index() || a[i].item.text.ToString() != b[i].item.text.ToString() {
			return fmt.Sprintf("rank %d: item #%d %q vs item #%d %q", i, a[i].item.Index(), a[i].item.text.ToString(), b[i].item.Index(), b[i].item.text.ToString())
		}
		if comparePoints && a[i].points != b[i].points {
			return fmt.Sprintf("rank %d (item #%d): sort key %v vs %v", i, a[i].item.Index(), a[i].points, b[i].points)
		}
	}
	return ""
}

// editQuery applies one of the edits a user makes to a query.
func editQuery(t *rapid.T, q string) string {
	rs := []rune(q)
	alpha := []rune("abcAB1 _")
	switch rapid.SampledFrom([]string{"append", "append", "append", "delete-last", "delete-first", "prepend", "prefix-op", "suffix-op", "negate", "or", "case", "new-term", "clear", "set"}).Draw(t, "edit") {
	case "append":
		return q + string(rapid.SampledFrom(alpha).Draw(t, "ch"))
	case "delete-last":
		if len(rs) > 0 {
			return string(rs[:len(rs)-1])
		}
	case "delete-first":
		if len(rs) > 0 {
			return string(rs[1:])
		}
	case "prepend":
		return string(rapid.SampledFrom(alpha).Draw(t, "ch")) + q
	case "prefix-op":
		return rapid.SampledFrom([]string{"^", "'", "!"}).Draw(t, "op") + q
	case "suffix-op":
		return q + rapid.SampledFrom([]string{"$", "'"}).Draw(t, "op")
	case "negate":
		return q + " !" + string(rapid.SampledFrom([]rune("abc")).Draw(t, "ch"))
	case "or":
		return q + " | " + string(rapid.SampledFrom([]rune("abc")).Draw(t, "ch"))
	case "case":
		if len(rs) > 0 {
			k := rapid.IntRange(0, len(rs)-1).Draw(t, "k")
			if rs[k] >= 'a' && rs[k] <= 'z' {
				rs[k] -= 32
			} else if rs[k] >= 'A' && rs[k] <= 'Z' {
				rs[k] += 32
			}
			return string(rs)
		}
	case "new-term":
		return q + " " + string(rapid.SampledFrom([]rune("abc")).Draw(t, "ch"))
	case "clear":
		return ""
	case "set":
		return rapid.SampledFrom([]string{"a", "ab", "abc", "b", "^a", "a$", "'ab", "!a", "a b", "ab | c", "A"}).Draw(t, "q")
	}
	return q
}

// lowSelectivityLines: the per-chunk cache only keeps result lists of at most
// 20 items, so most lines are filler that matches nothing.
func lowSelectivityLines(t *rapid.T, n int) []string {
	pool := rapid.SliceOfN(rapid.StringOfN(rapid.SampledFrom([]rune("abcAB -_1")), 1, 8, -1), 2, 8).Draw(t, "pool")
	density := rapid.SampledFrom([]int{5, 10, 10, 30}).Draw(t, "density")
	lines := make([]string, n)
	for i := range lines {
		if rapid.IntRange(0, 99).Draw(t, "hit") < density {
			lines[i] = rapid.SampledFrom(pool).Draw(t, "l")
		} else {
			lines[i] = "zzz"
		}
	}
	return lines
}

func TestVerifC08_CacheMachine(t *testing.T) {
	rapid.Check(t, func(t *rapid.T) { cacheMachineProp(t, "C08/cache-machine") })
}

// cacheMachineProp: a history of related queries evaluated with a shared
// per-chunk result cache must give, for every query, what a fresh evaluation
// gives (used by C08, and by C05 as its chunk-level history relation).
func cacheMachineProp(t *rapid.T, unit string) {
	{
		algo.Init("default")
		sortCriteria = []criterion{byScore, byLength}
		n := rapid.SampledFrom([]int{100, 150, 200, 300}).Draw(t, "n")
		lines := lowSelectivityLines(t, n)
		fuzzy := rapid.Bool().Draw(t, "fuzzy")
		forward := rapid.Bool().Draw(t, "forward")
		shared := NewChunkCache()
		_, chunks := buildChunks(lines, 0)
		slab := util.MakeSlab(slab16Size, slab32Size)
		patternCache := map[string]*Pattern{}
		nq := rapid.IntRange(1, 14).Draw(t, "nqueries")
		q := rapid.SampledFrom([]string{"", "a", "ab", "b"}).Draw(t, "q0")
		var history []string
		kinds := map[string]bool{}
		for i := 0; i < nq; i++ {
			if i > 0 {
				q = editQuery(t, q)
			}
			history = append(history, q)
			p := BuildPattern(shared, patternCache, fuzzy, algo.FuzzyMatchV2, true, CaseSmart, true, forward, false, true, nil, Delimiter{}, revision{}, []rune(q), nil)
			var got []Result
			if p.IsEmpty() {
				continue
			}
			for _, c := range chunks {
				got = append(got, p.Match(c, slab)...)
			}
			fresh := BuildPattern(NewChunkCache(), map[string]*Pattern{}, fuzzy, algo.FuzzyMatchV2, true, CaseSmart, true, forward, false, false, nil, Delimiter{}, revision{}, []rune(q), nil)
			var want []Result
			for _, c := range chunks {
				want = append(want, fresh.Match(c, slab)...)
			}
			if strings.ContainsAny(q, "^$'!|") {
				kinds["op"] = true
			}
			if d := sameResults(got, want, true); d != "" {
				t.Fatalf("query %q after the queries %q (fuzzy=%v, %d lines): result with the shared cache differs from a fresh evaluation: %s\nlines: %q", q, history[:len(history)-1], fuzzy, n, d, compactLines(lines))
			}
		}
		vstat.Case(unit, fmt.Sprintf("%v|%v|%q", fuzzy, history, lines), len(history) >= 3 && n >= 100, fmt.Sprintf("queries=%d", imin(len(history), 8)), fmt.Sprintf("ops=%v", kinds["op"]))
		if len(history) >= 3 && vstat.WantSample(unit) {
			vstat.Sample(unit, map[string]interface{}{"queries": history, "lines": n, "fuzzy": fuzzy})
		}
	}
}

func compactLines(lines []string) []string {
	var out []string
	for i, l := range lines {
		if l != "zzz" {
			out = append(out, fmt.Sprintf("%d:%s", i, l))
		}
	}
	return out
}

// ---------------------------------------------------------------- matcher loop

type loopRequest struct {
	chunks  []*Chunk
	query   string
	pattern *Pattern
	sort    bool
	final   bool
	rev     revision
}

type loopHarness struct {
	t              *rapid.T
	matcher        *Matcher
	eventBox       *util.EventBox
	cl             *ChunkList
	mk             func(q string) func(cache *ChunkCache, cacheable bool) *Pattern
	tac            bool
	mu             sync.Mutex
	requests       []loopRequest
	seen           []*Merger
	stopCh         chan struct{}
	done           chan struct{}
	cancelAt       int // chunk count at which the hook injects a superseding request (0 = never)
	injected       bool
	injectDone     bool
	inject         func()
	cancelledScans int
	publishes      int
}

func (h *loopHarness) consume() {
	defer close(h.done)
	for {
		stop := false
		var got *Merger
		h.eventBox.Wait(func(events *util.Events) {
			for evt, val := range *events {
				switch evt {
				case EvtSearchFin:
					got = val.(*Merger)
				case EvtQuit:
					stop = true
				}
			}
			events.Clear()
		})
		if got != nil {
			h.mu.Lock()
			h.seen = append(h.seen, got)
			h.mu.Unlock()
		}
		if stop {
			return
		}
	}
}

func (h *loopHarness) reset(query string, cancel bool, final bool, sortOn bool) {
	snap, _, _ := h.cl.Snapshot(0)
	h.mu.Lock()
	h.requests = append(h.requests, loopRequest{chunks: snap, query: query, sort: sortOn, final: final})
	h.mu.Unlock()
	h.matcher.Reset(snap, []rune(query), cancel, final, sortOn, revision{})
}

func (h *loopHarness) oracle(r loopRequest) []Result {
	return sequentialOracle(r.chunks, h.mk(r.query), r.sort, h.tac)
}

// explain returns "" when the merger is the correct answer to one of the requests.
func (h *loopHarness) matchesSomeRequest(m *Merger) (int, string) {
	got := mergerResults(m)
	last := ""
	h.mu.Lock()
	reqs := append([]loopRequest{}, h.requests...)
	h.mu.Unlock()
	for i := len(reqs) - 1; i >= 0; i-- {
		d := sameResults(got, h.oracle(reqs[i]), !m.pass)
		if d == "" {
			return i, ""
		}
		if last == "" {
			last = fmt.Sprintf("vs request %d (query %q, %d items): %s", i, reqs[i].query, CountItems(reqs[i].chunks), d)
		}
	}
	return -1, last
}

func TestVerifC08_MatcherLoop(t *testing.T) {
	rapid.Check(t, func(t *rapid.T) {
		algo.Init("default")
		sortCriteria = []criterion{byScore, byLength}
		fuzzy := rapid.Bool().Draw(t, "fuzzy")
		tac := rapid.IntRange(0, 3).Draw(t, "tac") == 0
		h := &loopHarness{t: t, tac: tac, stopCh: make(chan struct{}), done: make(chan struct{})}
		idx := int32(0)
		cache := NewChunkCache()
		h.cl = NewChunkList(cache, func(item *Item, data []byte) bool {
			item.text = util.ToChars(data)
			item.text.Index = idx
			idx++
			return true
		})
		patternCache := map[string]*Pattern{}
		var pcMu sync.Mutex
		build := func(c *ChunkCache, pc map[string]*Pattern, cacheable bool, q string) *Pattern {
			return BuildPattern(c, pc, fuzzy, algo.FuzzyMatchV2, true, CaseSmart, true, true, false, cacheable, nil, Delimiter{}, revision{}, []rune(q), nil)
		}
		h.mk = func(q string) func(*ChunkCache, bool) *Pattern {
			return func(c *ChunkCache, cacheable bool) *Pattern { return build(c, map[string]*Pattern{}, cacheable, q) }
		}
		h.eventBox = util.NewEventBox()
		h.matcher = NewMatcher(cache, func(runes []rune) *Pattern {
			pcMu.Lock()
			defer pcMu.Unlock()
			return build(cache, patternCache, true, string(runes))
		}, true, tac, h.eventBox, revision{})
		h.matcher.partitions = rapid.SampledFrom([]int{1, 2, 4, 8, 32}).Draw(t, "partitions")
		h.matcher.slab = make([]*util.Slab, h.matcher.partitions)
		verifHook = func(point string, a, b int) {
			switch point {
			case "scan.counted":
				h.mu.Lock()
				fire := h.cancelAt > 0 && a == h.cancelAt && !h.injected && h.inject != nil
				inject := h.inject
				if fire {
					h.injected = true
				}
				h.mu.Unlock()
				if fire {
					inject()
					// only now has the superseding request reached the matcher: the test goes on after this
					h.mu.Lock()
					h.injectDone = true
					h.mu.Unlock()
				}
			case "loop.publish":
				h.mu.Lock()
				h.publishes++
				h.mu.Unlock()
			}
		}
		defer func() { verifHook = nil }()
		go h.matcher.Loop()
		go h.consume()

		nsteps := rapid.IntRange(1, 10).Draw(t, "steps")
		q := ""
		sortOn := true
		pool := rapid.SliceOfN(rapid.StringOfN(rapid.SampledFrom([]rune("abcAB -_1")), 1, 8, -1), 2, 8).Draw(t, "pool")
		var trace []string
		wantCancel := false
		for s := 0; s < nsteps; s++ {
			switch rapid.SampledFrom([]string{"push", "push", "query", "query", "query-cancel-at", "query-cancel-at", "toggle-sort", "wait"}).Draw(t, "op") {
			case "push":
				n := rapid.SampledFrom([]int{1, 30, 100, 150, 400, 900}).Draw(t, "npush")
				for i := 0; i < n; i++ {
					l := "zzz"
					if rapid.IntRange(0, 9).Draw(t, "hit") < 2 {
						l = rapid.SampledFrom(pool).Draw(t, "l")
					}
					h.cl.Push([]byte(l))
				}
				trace = append(trace, fmt.Sprintf("push %d; reset(%q, cancel=false)", n, q))
				h.reset(q, false, false, sortOn) // what EvtReadNew does
			case "query":
				q = editQuery(t, q)
				trace = append(trace, fmt.Sprintf("reset(%q, cancel=true)", q))
				h.reset(q, true, false, sortOn) // what EvtSearchNew does
			case "query-cancel-at":
				// a second query change arrives exactly after the k-th chunk of the scan of the first
				q1 := editQuery(t, q)
				q2 := editQuery(t, q1)
				// (a scan reports after every chunk: the k-th report exists when there are at least k chunks)
				snapNow, _, _ := h.cl.Snapshot(0)
				if len(snapNow) < 3 && rapid.Bool().Draw(t, "moreInputFirst") {
					// more input has arrived by the time of the query change (no request of its own)
					for i := 0; i < 250; i++ {
						l := "zzz"
						if rapid.IntRange(0, 9).Draw(t, "hit") < 2 {
							l = rapid.SampledFrom(pool).Draw(t, "l")
						}
						h.cl.Push([]byte(l))
					}
					snapNow, _, _ = h.cl.Snapshot(0)
					trace = append(trace, "push 250")
				}
				maxK := imin(8, len(snapNow)-1)
				if maxK < 1 {
					maxK = 1
				}
				k := rapid.IntRange(1, maxK).Draw(t, "cancelAtChunk")
				h.mu.Lock()
				h.cancelAt, h.injected, h.injectDone = k, false, false
				qq2, so := q2, sortOn
				h.inject = func() { h.reset(qq2, true, false, so) }
				h.mu.Unlock()
				trace = append(trace, fmt.Sprintf("reset(%q, cancel=true), then reset(%q, cancel=true) after chunk %d", q1, q2, k))
				h.reset(q1, true, false, sortOn)
				// let the matcher reach the cancellation point (or finish if the scan is shorter)
				waitUntil(2*time.Second, func() bool {
					h.mu.Lock()
					defer h.mu.Unlock()
					return h.injectDone || !h.injected && h.publishes > 0 && len(h.seen) > 0
				})
				h.mu.Lock()
				h.cancelAt, h.inject = 0, nil // no injection from here on
				injected := h.injected
				h.mu.Unlock()
				if injected {
					// the injected request is on its way: it must have reached the matcher before the
					// next one is made (requests are served by age)
					if !waitUntil(60*time.Second, func() bool { h.mu.Lock(); defer h.mu.Unlock(); return h.injectDone }) {
						t.Fatalf("harness: the injected request did not return")
					}
					q = q2
					wantCancel = true
				} else {
					q = q1
				}
			case "toggle-sort":
				sortOn = !sortOn
				trace = append(trace, fmt.Sprintf("toggle-sort -> %v; reset(%q, cancel=true)", sortOn, q))
				h.reset(q, true, false, sortOn)
			case "wait":
				time.Sleep(time.Duration(rapid.IntRange(0, 3).Draw(t, "ms")) * time.Millisecond)
				trace = append(trace, "wait")
			}
		}
		// end of input: final request
		trace = append(trace, fmt.Sprintf("end of input; reset(%q, final)", q))
		h.reset(q, false, true, sortOn)
		h.mu.Lock()
		last := h.requests[len(h.requests)-1]
		h.mu.Unlock()
		want := h.oracle(last)
		// quiescence: the last published merger is the answer to the last request
		var final *Merger
		ok := waitUntil(60*time.Second, func() bool {
			h.mu.Lock()
			defer h.mu.Unlock()
			if len(h.seen) == 0 {
				return false
			}
			final = h.seen[len(h.seen)-1]
			return final.final && sameResults(mergerResults(final), want, !final.pass) == ""
		})
		h.matcher.Stop()
		h.eventBox.Set(EvtQuit, nil)
		<-h.done
		h.mu.Lock()
		seen := append([]*Merger{}, h.seen...)
		nreq := len(h.requests)
		h.mu.Unlock()
		multiChunk := CountItems(last.chunks) >= chunkSize
		nt := nreq >= 3 && multiChunk
		vstat.Case("C08/matcher-loop", fmt.Sprint(trace), nt, fmt.Sprintf("cancel_injected=%v", wantCancel), fmt.Sprintf("partitions=%d", h.matcher.partitions), fmt.Sprintf("tac=%v", tac))
		if nt && vstat.WantSample("C08/matcher-loop") {
			vstat.Sample("C08/matcher-loop", map[string]interface{}{"history": trace, "published": len(seen), "final_results": len(want), "items": CountItems(last.chunks)})
		}
		if !ok {
			desc := "nothing published"
			if final != nil {
				desc = fmt.Sprintf("last published list (final=%v, %d results): %s", final.final, final.Length(), sameResults(mergerResults(final), want, !final.pass))
			}
			t.Fatalf("after %v the matcher is quiescent but the published result is not the fresh filter of the last query %q over %d items: %s", trace, q, CountItems(last.chunks), desc)
		}
		// every published list is the complete, correct answer to one of the requests
		for i, m := range seen {
			if ri, why := h.matchesSomeRequest(m); ri < 0 {
				t.Fatalf("history %v: published list %d (%d results, final=%v) is not the sequential filter of any request made so far (partial or stale result); %s", trace, i, m.Length(), m.final, why)
			}
		}
	})
}

func waitUntil(d time.Duration, cond func() bool) bool {
	deadline := time.Now().Add(d)
	for {
		if cond() {
			return true
		}
		if time.Now().After(deadline) {
			return false
		}
		time.Sleep(200 * time.Microsecond)
	}
}

// Two requests pending at the same time (a retry issued by the reader side,
// then a reset issued by a query change): the newer one must be served.
func TestVerifC08_LatestRequestWins(t *testing.T) {
	algo.Init("default")
	sortCriteria = []criterion{byScore, byLength}
	var lines []string
	for i := 0; i < 300; i++ {
		if i%2 == 0 {
			lines = append(lines, fmt.Sprintf("a%d", i))
		} else {
			lines = append(lines, fmt.Sprintf("b%d", i))
		}
	}
	stale := 0
	trials := 60
	for trial := 0; trial < trials; trial++ {
		for _, order := range []string{"retry-then-reset", "reset-then-retry"} {
			cache := NewChunkCache()
			_, chunks := buildChunks(lines, 0)
			eventBox := util.NewEventBox()
			pc := map[string]*Pattern{}
			var pcMu sync.Mutex
			m := NewMatcher(cache, func(runes []rune) *Pattern {
				pcMu.Lock()
				defer pcMu.Unlock()
				return BuildPattern(cache, pc, true, algo.FuzzyMatchV2, true, CaseSmart, true, true, false, true, nil, Delimiter{}, revision{}, runes, nil)
			}, true, false, eventBox, revision{})
			m.partitions = 1
			m.slab = make([]*util.Slab, 1)
			injected := false
			published := make(chan int, 16)
			verifHook = func(point string, a, b int) {
				switch point {
				case "scan.counted":
					if !injected && a == 1 {
						injected = true
						if order == "retry-then-reset" {
							m.Reset(chunks, []rune("a"), false, true, true, revision{}) // older: end of input, query still "a"
							m.Reset(chunks, []rune("b"), true, true, true, revision{})  // newer: the user typed "b"
						} else {
							m.Reset(chunks, []rune("a"), true, true, true, revision{})  // older: the user typed "a"
							m.Reset(chunks, []rune("b"), false, true, true, revision{}) // newer: end of input with the current query "b"
						}
					}
				case "loop.publish":
					published <- a
				}
			}
			go m.Loop()
			m.Reset(chunks, []rune("zzz"), true, false, true, revision{})
			var merger *Merger
			select {
			case <-published:
			case <-time.After(20 * time.Second):
				t.Fatalf("VERIF-INFRA: nothing published within 20 s")
			}
			// drain: the event box holds the last published merger
			eventBox.Wait(func(events *util.Events) {
				if v, ok := (*events)[EvtSearchFin]; ok {
					merger = v.(*Merger)
				}
				events.Clear()
			})
			time.Sleep(time.Millisecond)
			select {
			case <-published: // a second publish would mean both were served; take the later one
				eventBox.Wait(func(events *util.Events) {
					if v, ok := (*events)[EvtSearchFin]; ok {
						merger = v.(*Merger)
					}
					events.Clear()
				})
			default:
			}
			m.Stop()
			verifHook = nil
			vstat.Case("C08/latest-request", fmt.Sprint(trial, order), true, "order="+order)
			if merger == nil || !injected {
				t.Fatalf("VERIF-INFRA: harness did not reach the injection point")
			}
			if merger.Length() == 0 || !strings.HasPrefix(merger.Get(0).item.text.ToString(), "b") {
				stale++
				if stale <= 3 {
					first := "<none>"
					if merger.Length() > 0 {
						first = merger.Get(0).item.text.ToString()
					}
					t.Errorf("trial %d (%s): two requests were pending, the newer one asks for query \"b\", but the published list (%d results, first %q) answers the older query \"a\"", trial, order, merger.Length(), first)
				}
			}
		}
	}
	if stale > 0 {
		t.Errorf("%d of %d trials left the list showing the results of the superseded request", stale, 2*trials)
	}
}
