//go:build verif

package fzf

import (
	"fmt"
	"strings"
	"testing"
	"unicode"
	"unicode/utf8"

	"github.com/junegunn/fzf/src/algo"
	"github.com/junegunn/fzf/src/util"
	"pgregory.net/rapid"
	"verif.local/oracle"
	"verif.local/vstat"
)

// C10 - field expressions select exactly the documented fields.

var c10Alpha = []rune("abé漢  \t\t,,;:x1" + "\u00e0\u00c5\u0420\u00a0\u0800\r\v") // incl. characters whose UTF-8 encoding holds the bytes 0x85 / 0xa0, NBSP and control blanks: only space and tab separate AWK fields

func c10Line(t *rapid.T) string {
	return string(rapid.SliceOfN(rapid.SampledFrom(c10Alpha), 0, 16).Draw(t, "line"))
}

// checkTokenize: partition law + offsets, against the oracle's splitter.
func checkTokenize(line string, ds delimSpec) (ntok int, msg string) {
	tokens := Tokenize(line, ds.d)
	want := oracle.Split(line, ds.o)
	if len(tokens) != len(want) {
		return len(tokens), fmt.Sprintf("%d fields, model has %d (%q)", len(tokens), len(want), want)
	}
	for i, tok := range tokens {
		if tok.text.ToString() != want[i].Text {
			return len(tokens), fmt.Sprintf("field %d is %q, model %q", i+1, tok.text.ToString(), want[i].Text)
		}
		if int(tok.prefixLength) != want[i].Offset {
			return len(tokens), fmt.Sprintf("field %d recorded at character offset %d, it starts at %d", i+1, tok.prefixLength, want[i].Offset)
		}
	}
	// the partition law itself, independent of the model
	joined := ""
	for _, tok := range tokens {
		joined += tok.text.ToString()
	}
	lead := ""
	if ds.d.IsAwk() {
		lead = line[:len(line)-len(strings.TrimLeft(line, " \t"))]
	}
	if lead+joined != line {
		return len(tokens), fmt.Sprintf("fields do not concatenate to the line: %q + %q", lead, joined)
	}
	runes := []rune(line)
	for i, tok := range tokens {
		s := tok.text.ToString()
		n := utf8.RuneCountInString(s)
		if int(tok.prefixLength)+n > len(runes) || string(runes[tok.prefixLength:int(tok.prefixLength)+n]) != s {
			return len(tokens), fmt.Sprintf("field %d (%q) is not at character offset %d of the line", i+1, s, tok.prefixLength)
		}
	}
	return len(tokens), ""
}

func propC10Tokenize(t *rapid.T) {
	line := c10Line(t)
	ds := mkDelimSpec(rapid.SampledFrom(delimArgs).Draw(t, "delim"))
	n, msg := checkTokenize(line, ds)
	multibyteFirst := false
	for _, r := range line {
		if r >= 0x80 {
			multibyteFirst = true
		}
		break
	}
	vstat.Case("C10/tokenize", line+"|"+ds.arg, n >= 3 || multibyteFirst, "delim="+ds.arg, fmt.Sprintf("fields=%d", imin(n, 6)))
	if msg != "" {
		t.Fatalf("line %q delimiter %q: %s", line, ds.arg, msg)
	}
}

func TestVerifC10_Tokenize(t *testing.T) {
	rapid.Check(t, propC10Tokenize)
}

func imin(a, b int) int {
	if a < b {
		return a
	}
	return b
}

func rangeSpellings(b, e int, openB, openE bool) []string {
	bs, es := fmt.Sprint(b), fmt.Sprint(e)
	if openB {
		bs = ""
	}
	if openE {
		es = ""
	}
	out := []string{bs + ".." + es}
	if !openB && !openE && b == e {
		out = append(out, bs)
	}
	return out
}

// Exhaustive table: every range spelling with bounds in -4..4 (or open) x
// field counts 0..5 x three delimiter kinds: Transform == model selection.
func TestVerifC10_RangesExhaustive(t *testing.T) {
	bounds := []int{-4, -3, -2, -1, 1, 2, 3, 4}
	type spec struct {
		s            string
		b, e         int
		openB, openE bool
	}
	var specs []spec
	for _, ob := range []bool{false, true} {
		for _, oe := range []bool{false, true} {
			bl, el := bounds, bounds
			if ob {
				bl = []int{0}
			}
			if oe {
				el = []int{0}
			}
			for _, b := range bl {
				for _, e := range el {
					for _, s := range rangeSpellings(b, e, ob, oe) {
						specs = append(specs, spec{s, b, e, ob, oe})
					}
				}
			}
		}
	}
	invalid := []string{"0", "0..", "..0", "1..0", "a", "", "1...2", "1..2..3", "..1..", "1-2", "--1", "1,2"}
	for _, s := range invalid {
		s := s
		if _, ok := ParseRange(&s); ok {
			t.Errorf("ParseRange accepts the invalid expression %q", s)
		}
		vstat.Case("C10/ranges", "invalid|"+s, true, "invalid_spelling")
	}
	lines := map[string][]string{
		"":      {"", "a", " a", "a b", " a  b ", "a b c", "a b c d", "a b  c d e"},
		",":     {"", "a", ",", "a,b", ",a,", "a,b,c", "a,,b,c", "a,b,c,d,e"},
		"[,;]+": {"", "a", ",;", "a,;b", ";a,", "a,b;c", "a,,b;c,d", "a,b;c;,d,e"},
	}
	failures := 0
	for darg, ls := range lines {
		ds := mkDelimSpec(darg)
		for _, line := range ls {
			tokens := Tokenize(line, ds.d)
			fields := oracle.Split(line, ds.o)
			for _, sp := range specs {
				s := sp.s
				r, ok := ParseRange(&s)
				or, ook := oracle.ParseFieldRange(sp.s)
				if !ook {
					t.Fatalf("oracle rejects %q", sp.s)
				}
				negPos := !sp.openB && !sp.openE && sp.b < 0 && sp.e > 0
				if !ok {
					if !negPos {
						failures++
						t.Errorf("ParseRange rejects the documented expression %q", sp.s)
					}
					continue
				}
				trans := Transform(tokens, []Range{r})
				want, off, any := oracle.Select(fields, or)
				got := trans[0].text.ToString()
				lo, hi := or.Resolve(len(fields))
				nt := len(fields) >= 3 || sp.b < 0 || sp.e < 0 || hi > len(fields) || lo > hi
				vstat.Case("C10/ranges", darg+"|"+line+"|"+sp.s, nt, "delim="+darg)
				if got != want {
					failures++
					if failures < 20 {
						t.Errorf("line %q delimiter %q range %q: selected %q, documented selection is %q", line, darg, sp.s, got, want)
					}
				}
				if any && int(trans[0].prefixLength) != off {
					failures++
					if failures < 20 {
						t.Errorf("line %q delimiter %q range %q: selection recorded at offset %d, it starts at %d", line, darg, sp.s, trans[0].prefixLength, off)
					}
				}
			}
		}
	}
	vstat.Exhaustive("C10/ranges", "every spelling N, A..B, A.., ..B, .. with bounds in -4..4 x 8 lines with 0..5 fields x AWK/literal/regex delimiter")
}

// Random lines / larger bounds / lists of ranges.
func propC10RangesRandom(t *rapid.T) {
	line := c10Line(t)
	ds := mkDelimSpec(rapid.SampledFrom(delimArgs).Draw(t, "delim"))
	tokens := Tokenize(line, ds.d)
	fields := oracle.Split(line, ds.o)
	nr := rapid.IntRange(1, 3).Draw(t, "nranges")
	var rs []Range
	var ors []oracle.FieldRange
	var spell []string
	for i := 0; i < nr; i++ {
		b := rapid.IntRange(-7, 7).Draw(t, "b")
		e := rapid.IntRange(-7, 7).Draw(t, "e")
		var s string
		switch rapid.IntRange(0, 3).Draw(t, "form") {
		case 0:
			if b == 0 {
				b = 1
			}
			s = fmt.Sprint(b)
		case 1:
			if b == 0 {
				s = ".."
			} else {
				s = fmt.Sprintf("%d..", b)
			}
		case 2:
			if e == 0 {
				s = ".."
			} else {
				s = fmt.Sprintf("..%d", e)
			}
		default:
			if b == 0 || e == 0 || b < 0 && e > 0 {
				s = ".."
			} else {
				s = fmt.Sprintf("%d..%d", b, e)
			}
		}
		r, ok := ParseRange(&s)
		or, ook := oracle.ParseFieldRange(s)
		if !ok || !ook {
			t.Fatalf("range %q rejected (fzf %v, model %v)", s, ok, ook)
		}
		rs = append(rs, r)
		ors = append(ors, or)
		spell = append(spell, s)
	}
	trans := Transform(tokens, rs)
	nt := len(fields) >= 3
	for i := range rs {
		want, off, any := oracle.Select(fields, ors[i])
		if got := trans[i].text.ToString(); got != want {
			t.Fatalf("line %q delimiter %q range %q: selected %q, documented selection is %q", line, ds.arg, spell[i], got, want)
		}
		if any && int(trans[i].prefixLength) != off {
			t.Fatalf("line %q delimiter %q range %q: offset %d, want %d", line, ds.arg, spell[i], trans[i].prefixLength, off)
		}
	}
	// --with-nth display text and the {N}-style selection with stripping
	nthStr := strings.Join(spell, ",")
	factory, err := nthTransformer(nthStr)
	if err != nil {
		t.Fatalf("nthTransformer(%q): %v", nthStr, err)
	}
	got := factory(ds.d)(tokens, 0)
	want := ""
	for _, or := range ors {
		s, _, _ := oracle.Select(fields, or)
		want += s
	}
	if got != want {
		t.Fatalf("line %q delimiter %q --with-nth %q: %q, model %q", line, ds.arg, nthStr, got, want)
	}
	// template form / --accept-nth / {N}: each placeholder is stripped of its last delimiter
	tmpl := ""
	wantT := ""
	for i, s := range spell {
		tmpl += fmt.Sprintf("<{%s}>", s)
		sel, _, _ := oracle.Select(fields, ors[i])
		wantT += "<" + oracle.StripLastDelim(sel, ds.o) + ">"
	}
	factory, err = nthTransformer(tmpl)
	if err != nil {
		t.Fatalf("nthTransformer(%q): %v", tmpl, err)
	}
	if gotT := factory(ds.d)(tokens, 0); gotT != wantT {
		t.Fatalf("line %q delimiter %q template %q: %q, model %q", line, ds.arg, tmpl, gotT, wantT)
	}
	vstat.Case("C10/ranges-random", line+"|"+ds.arg+"|"+nthStr, nt, "delim="+ds.arg, fmt.Sprintf("nranges=%d", nr))
	if nt && vstat.WantSample("C10/ranges-random") {
		vstat.Sample("C10/ranges-random", map[string]interface{}{"line": line, "delimiter": ds.arg, "nth": nthStr, "with_nth_text": got})
	}
}

func TestVerifC10_RangesRandom(t *testing.T) {
	rapid.Check(t, propC10RangesRandom)
}

// --nth: a term can only match inside the selected fields, and the reported
// offsets / positions refer to the characters of the full line.
func propC10NthMatch(t *rapid.T) { nthMatchProp(t, "C10/nth-match", false) }

// nthMatchProp serves C10 (the scope) and C02 (the witness, for every kind of term, when the
// searched text is a part of the line).
func nthMatchProp(t *rapid.T, unit string, allKinds bool) {
	line := c10Line(t)
	ds := mkDelimSpec(rapid.SampledFrom([]string{"", ",", ":", "[,;]+", "\\t", ";"}).Draw(t, "delim"))
	fields := oracle.Split(line, ds.o)
	nr := rapid.IntRange(1, 2).Draw(t, "nranges")
	var rs []Range
	var ors []oracle.FieldRange
	var spell []string
	for i := 0; i < nr; i++ {
		s := rapid.SampledFrom([]string{"1", "2", "3", "-1", "-2", "2..", "..2", "2..3", "-2..", ".."}).Draw(t, "range")
		r, _ := ParseRange(&s)
		or, _ := oracle.ParseFieldRange(s)
		rs, ors, spell = append(rs, r), append(ors, or), append(spell, s)
	}
	// term without blanks or delimiter characters (see DESIGN: the extent of a
	// field's trailing delimiter is an observed convention, not a documented one)
	body := string(rapid.SliceOfN(rapid.SampledFrom([]rune("abé漢x1")), 1, 3).Draw(t, "body"))
	kind := oracle.TermKind(rapid.SampledFrom([]int{0, 0, 1, 2, 3}).Draw(t, "kind"))
	if allKinds {
		kind = oracle.TermKind(rapid.IntRange(0, 5).Draw(t, "anyKind"))
	}
	fuzzyAlgo := algo.FuzzyMatchV2
	if rapid.Bool().Draw(t, "v1") {
		fuzzyAlgo = algo.FuzzyMatchV1
	}
	forward := rapid.Bool().Draw(t, "forward")
	withPos := rapid.Bool().Draw(t, "withPos")
	qtext := oracle.RenderTerm(oracle.Term{Kind: kind, Body: body}, false)
	algo.Init("default")
	item := vItem(line, 0)
	slab := util.MakeSlab(slab16Size, slab32Size)
	rev := revision{}
	if rapid.Bool().Draw(t, "nthChangedBefore") {
		// the item was searched before with another --nth (change-nth: the coordinator bumps the minor revision)
		s0 := rapid.SampledFrom([]string{"1", "2", "-1", "2..", ".."}).Draw(t, "earlierRange")
		r0, _ := ParseRange(&s0)
		pat0 := BuildPattern(NewChunkCache(), map[string]*Pattern{}, true, fuzzyAlgo, true, CaseSmart, true, forward, withPos, false, []Range{r0}, ds.d, rev, []rune(qtext), nil)
		pat0.MatchItem(item, withPos, slab)
		rev.bumpMinor()
	}
	pat := BuildPattern(NewChunkCache(), map[string]*Pattern{}, true, fuzzyAlgo, true, CaseSmart, true, forward, withPos, false, rs, ds.d, rev, []rune(qtext), nil)
	res, offsets, pos := pat.MatchItem(item, withPos, slab)

	// model: the term has a witness inside one of the selected texts
	qo := oracle.QueryOpts{Extended: true}
	type sel struct {
		text     []rune
		off, end int
	}
	var sels []sel
	for _, or := range ors {
		s, off, any := oracle.Select(fields, or)
		if any {
			sels = append(sels, sel{[]rune(s), off, off + len([]rune(s))})
		}
	}
	expect := false
	for _, s := range sels {
		if oracle.EvalTermOn(oracle.Term{Kind: kind, Body: body}, qo, [][]rune{s.text}) {
			expect = true
		}
	}
	// Whether a field's own delimiter stands between the term and the end of the field ("a$" on the
	// field "a,") is not documented: where that decides, either answer is taken
	undecided := false
	if kind == oracle.KindSuffix || kind == oracle.KindEqual {
		loose := false
		for _, s := range sels {
			if oracle.EvalTermOn(oracle.Term{Kind: kind, Body: body}, qo, [][]rune{[]rune(oracle.StripLastDelim(string(s.text), ds.o))}) {
				loose = true
			}
		}
		undecided = loose != expect
		expect = expect || loose
	}
	runes := []rune(line)
	nt := len(fields) >= 3 && expect
	if allKinds {
		// C02: the searched text does not start at the start of the line
		nt = expect && len(sels) > 0 && sels[0].off > 0
	}
	vstat.Case(unit, fmt.Sprintf("%q|%s|%v|%s|%v|%v", line, ds.arg, spell, qtext, forward, withPos), nt, "delim="+ds.arg, "kind="+kind.String())
	if nt && vstat.WantSample(unit) {
		vstat.Sample(unit, map[string]interface{}{"line": line, "delimiter": ds.arg, "nth": spell, "query": qtext, "offsets": fmt.Sprint(offsets)})
	}
	if (res != nil) != expect && !(undecided && res == nil) {
		t.Fatalf("line %q delimiter %q --nth %v query %q: matched=%v, but the term %s a witness inside the selected fields %q", line, ds.arg, spell, qtext, res != nil,
			map[bool]string{true: "has", false: "has no"}[expect], selTexts(fields, ors))
	}
	if res == nil {
		return
	}
	pt, f := oracle.PrepareTerm(body, body, oracle.CaseSmart, false)
	folded := f.FoldRunes(runes)
	for _, o := range offsets {
		b, e := int(o[0]), int(o[1])
		if b < 0 || e > len(runes) || b > e {
			t.Fatalf("line %q --nth %v query %q: offset [%d,%d) outside the line", line, spell, qtext, b, e)
		}
		inside := false
		for _, s := range sels {
			if b >= s.off && e <= s.end {
				inside = true
			}
		}
		if !inside {
			t.Fatalf("line %q delimiter %q --nth %v query %q: match range [%d,%d) is not inside a selected field", line, ds.arg, spell, qtext, b, e)
		}
		if !oracle.IsSubsequence(folded[b:e], pt) {
			t.Fatalf("line %q --nth %v query %q: characters [%d,%d) of the full line (%q) do not contain the term", line, spell, qtext, b, e, string(runes[b:e]))
		}
		if kind == oracle.KindPrefix || kind == oracle.KindSuffix || kind == oracle.KindEqual {
			// the anchor, with the documented trimming of blanks
			anchored := false
			for _, s := range sels {
				lead, trail := 0, 0
				for lead < len(s.text) && unicode.IsSpace(s.text[lead]) {
					lead++
				}
				for trail < len(s.text)-lead && unicode.IsSpace(s.text[len(s.text)-1-trail]) {
					trail++
				}
				atStart, atEnd := b == s.off+lead, e == s.end-trail
				if st := []rune(oracle.StripLastDelim(string(s.text), ds.o)); len(st) != len(s.text) {
					trail = 0
					for trail < len(st) && unicode.IsSpace(st[len(st)-1-trail]) {
						trail++
					}
					atEnd = atEnd || e == s.off+len(st)-trail
				}
				if kind == oracle.KindPrefix && atStart || kind == oracle.KindSuffix && atEnd || kind == oracle.KindEqual && atStart && atEnd {
					anchored = true
				}
			}
			if !anchored {
				t.Fatalf("line %q delimiter %q --nth %v query %q: range [%d,%d) is not anchored at the edge of a selected field %q", line, ds.arg, spell, qtext, b, e, selTexts(fields, ors))
			}
		}
		if kind != oracle.KindFuzzy && string(folded[b:e]) != string(pt) {
			t.Fatalf("line %q delimiter %q --nth %v query %q: characters [%d,%d) of the full line (%q) are not an occurrence of the term", line, ds.arg, spell, qtext, b, e, string(runes[b:e]))
		}
	}
	if withPos && pos != nil {
		ps := append([]int{}, (*pos)...)
		if len(ps) != len(pt) {
			t.Fatalf("line %q --nth %v query %q: %d positions for %d characters", line, spell, qtext, len(ps), len(pt))
		}
		sortInts(ps)
		for i, p := range ps {
			if p < 0 || p >= len(folded) || folded[p] != pt[i] {
				t.Fatalf("line %q delimiter %q --nth %v query %q: position %d of the full line does not hold %q (positions %v)", line, ds.arg, spell, qtext, p, pt[i], ps)
			}
		}
	}
}

func TestVerifC10_NthMatch(t *testing.T) {
	rapid.Check(t, propC10NthMatch)
}

func selTexts(fields []oracle.Field, ors []oracle.FieldRange) []string {
	var out []string
	for _, or := range ors {
		s, _, _ := oracle.Select(fields, or)
		out = append(out, s)
	}
	return out
}

func sortInts(a []int) {
	for i := 1; i < len(a); i++ {
		for j := i; j > 0 && a[j] < a[j-1]; j-- {
			a[j], a[j-1] = a[j-1], a[j]
		}
	}
}
