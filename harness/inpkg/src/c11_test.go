//go:build verif

package fzf

import (
	"fmt"
	"strings"
	"testing"
	"unicode/utf8"

	"github.com/junegunn/fzf/src/tui"
	"pgregory.net/rapid"
	"verif.local/oracle"
	"verif.local/vstat"
)

// C11 - --ansi strips escape sequences only and colours the right characters.

func toOracleStyle(s ansiState) oracle.CellStyle {
	c := oracle.CellStyle{Fg: int(s.fg), Bg: int(s.bg)}
	if s.attr&tui.Bold > 0 {
		c.Attr |= oracle.ABold
	}
	if s.attr&tui.Dim > 0 {
		c.Attr |= oracle.ADim
	}
	if s.attr&tui.Italic > 0 {
		c.Attr |= oracle.AItalic
	}
	if s.attr&tui.Underline > 0 {
		c.Attr |= oracle.AUnderline
	}
	if s.attr&tui.Blink > 0 {
		c.Attr |= oracle.ABlink
	}
	if s.attr&tui.Reverse > 0 {
		c.Attr |= oracle.AReverse
	}
	if s.attr&tui.StrikeThrough > 0 {
		c.Attr |= oracle.AStrike
	}
	if s.url != nil {
		c.URL, c.Params = s.url.uri, s.url.params
	}
	return c
}

// spansWellFormed: within the text, ordered, non-overlapping.
func spansWellFormed(offsets *[]ansiOffset, nrunes int) string {
	if offsets == nil {
		return ""
	}
	prevEnd := int32(0)
	for i, o := range *offsets {
		b, e := o.offset[0], o.offset[1]
		if b < 0 || e < b || int(e) > nrunes {
			return fmt.Sprintf("span %d = [%d,%d) not inside the text of %d characters", i, b, e, nrunes)
		}
		if b < prevEnd {
			return fmt.Sprintf("span %d = [%d,%d) overlaps or precedes the previous one ending at %d", i, b, e, prevEnd)
		}
		prevEnd = e
	}
	return ""
}

// fragments that put the edges of every character class of the specification
// (printable 0x20-0x7e, parameter bytes, final bytes, terminators) into sequences
var c11Fragments = []string{"\x1b]", "\x1b[", "\x1b", "8;;", "8;id=1;", "0;", "133:", "\x07", "\x1b\\", "~", " ", "\x7f", "\x1f", "\x80", "a", "z", "A", "Z", "@", "`", "{", "/", "0", "9", ":", ";", "?", "<", "m", "\x08", "é", "(", ")", "B", "\x0e", "\x0f", "[", "\\"}

var c11Bytes = []byte("\x1b\x1b\x1b[[]]()\\;;::??0123456789mmKHABl \x07\x08\x08\x0e\x0f\nabc\xc3\xa9\xe6\xbc\xa2\xff\x80~")

// c11BytesVerdict is the oracle for one arbitrary byte string: "" when the
// stripped text and the colour spans are what the specification demands.
func c11BytesVerdict(s string, carried *ansiState) string {
	trimmed, offsets, _ := extractColor(s, carried, nil)
	want := oracle.StripAnsi(s)
	nseq := len(oracle.AnsiRe.FindAllStringIndex(s, -1))
	nt := nseq >= 2 && len(want) > 0
	vstat.Case("C11/bytes", s, nt, fmt.Sprintf("sequences=%d", imin(nseq, 5)))
	if nt && vstat.WantSample("C11/bytes") {
		vstat.Sample("C11/bytes", map[string]interface{}{"input": fmt.Sprintf("%q", s), "stripped": fmt.Sprintf("%q", trimmed)})
	}
	if trimmed != want {
		return fmt.Sprintf("input %q: stripped text %q, specification gives %q", s, trimmed, want)
	}
	if !oracle.HasControl(s) && trimmed != s {
		return fmt.Sprintf("input %q has no control characters but was changed to %q", s, trimmed)
	}
	nrunes := utf8.RuneCountInString(trimmed)
	if msg := spansWellFormed(offsets, nrunes); msg != "" {
		// Known finding: an invalid UTF-8 byte sequence whose halves are
		// separated by an escape sequence recombines into fewer characters
		// after stripping; spans are counted on the pieces.
		if pc := pieceRuneCount(s); !utf8.ValidString(s) && pc > nrunes && spansWellFormed(offsets, pc) == "" &&
			vstat.Known("C11", kfRecombine, fmt.Sprintf("input %q stripped %q: %s", s, trimmed, msg)) {
			return ""
		}
		return fmt.Sprintf("input %q (stripped %q): %s; spans %v", s, trimmed, msg, *offsets)
	}
	return ""
}

func propC11ArbitraryBytes(t *rapid.T) {
	var s string
	switch rapid.IntRange(0, 4).Draw(t, "mode") {
	case 0:
		s = string(rapid.SliceOfN(rapid.Byte(), 0, 24).Draw(t, "raw"))
	case 1:
		s = strings.Join(rapid.SliceOfN(rapid.SampledFrom(c11Fragments), 0, 12).Draw(t, "fragments"), "")
	default:
		s = string(rapid.SliceOfN(rapid.SampledFrom(c11Bytes), 0, 30).Draw(t, "biased"))
	}
	var carried *ansiState
	if rapid.IntRange(0, 3).Draw(t, "carry") == 0 {
		carried = &ansiState{fg: 3, bg: -1, attr: tui.Bold, lbg: -1}
	}
	if msg := c11BytesVerdict(s, carried); msg != "" {
		t.Fatalf("%s", msg)
	}
}

func TestVerifC11_ArbitraryBytes(t *testing.T) {
	rapid.Check(t, propC11ArbitraryBytes)
}

const kfRecombine = "invalid-utf8-recombined-by-stripping"

// pieceRuneCount counts the characters of the kept pieces one by one, the way
// a stream filter sees them.
func pieceRuneCount(s string) int {
	n := 0
	for len(s) > 0 {
		loc := oracle.AnsiRe.FindStringIndex(s)
		if loc == nil {
			break
		}
		n += utf8.RuneCountInString(s[:loc[0]])
		s = s[loc[1]:]
	}
	return n + utf8.RuneCountInString(s)
}

// ---- grammar

var sgrSimple = []int{0, 1, 2, 3, 4, 5, 7, 9, 22, 23, 24, 25, 27, 29, 30, 31, 32, 33, 34, 35, 36, 37, 39, 40, 41, 44, 47, 49, 90, 93, 97, 100, 104, 107}

func genSGR(t *rapid.T) oracle.Piece {
	n := rapid.IntRange(0, 4).Draw(t, "nparams")
	var codes []int
	var parts []string
	sep := ";"
	for i := 0; i < n; i++ {
		switch rapid.IntRange(0, 5).Draw(t, "paramKind") {
		case 0: // 256 colours
			base := rapid.SampledFrom([]int{38, 48}).Draw(t, "base")
			c := rapid.SampledFrom([]int{0, 1, 7, 8, 15, 16, 100, 231, 255}).Draw(t, "c256")
			codes = append(codes, base, 5, c)
			if rapid.IntRange(0, 3).Draw(t, "colonForm") == 0 {
				parts = append(parts, fmt.Sprintf("%d:5:%d", base, c)) // sub-parameters separated by colons (ITU T.416)
			} else {
				parts = append(parts, fmt.Sprint(base), "5", fmt.Sprint(c))
			}
		case 1: // true colour
			base := rapid.SampledFrom([]int{38, 48}).Draw(t, "base")
			r := rapid.SampledFrom([]int{0, 1, 127, 255}).Draw(t, "r")
			g := rapid.SampledFrom([]int{0, 2, 128, 255}).Draw(t, "g")
			b := rapid.SampledFrom([]int{0, 3, 129, 255}).Draw(t, "b")
			codes = append(codes, base, 2, r, g, b)
			switch rapid.IntRange(0, 5).Draw(t, "colonForm") {
			case 0:
				parts = append(parts, fmt.Sprintf("%d:2:%d:%d:%d", base, r, g, b))
			case 1: // the full ITU form has a colour space identifier, usually left empty
				parts = append(parts, fmt.Sprintf("%d:2::%d:%d:%d", base, r, g, b))
			default:
				parts = append(parts, fmt.Sprint(base), "2", fmt.Sprint(r), fmt.Sprint(g), fmt.Sprint(b))
			}
		default:
			c := rapid.SampledFrom(sgrSimple).Draw(t, "code")
			codes = append(codes, c)
			s := fmt.Sprint(c)
			if c < 10 && rapid.IntRange(0, 9).Draw(t, "zeroPad") == 0 {
				s = "0" + s
			}
			parts = append(parts, s)
		}
	}
	return oracle.Piece{Kind: oracle.PSGR, Codes: codes, Text: "\x1b[" + strings.Join(parts, sep) + "m"}
}

var otherSeqs = []string{"\x1b[K", "\x1b[0K", "\x1b[2J", "\x1b[H", "\x1b[12;40H", "\x1b[?25l", "\x1b[?25h", "\x1b[?1049h", "\x1b(B", "\x1b)B", "\x1bc", "\x1b7", "\x1b8", "\x1b=", "\x1bM", "\x0e", "\x0f", "\x1b]0;title\x07", "\x1b]2;t\x1b\\", "\x1b[1A", "\x1b[@"}
var c11Text = []rune("abcXY  1;[m]é漢ｶ_-/\\0K")

func genPieces(t *rapid.T, maxPieces int) []oracle.Piece {
	n := rapid.IntRange(0, maxPieces).Draw(t, "npieces")
	var ps []oracle.Piece
	for i := 0; i < n; i++ {
		switch rapid.IntRange(0, 9).Draw(t, "piece") {
		case 0, 1, 2, 3:
			txt := string(rapid.SliceOfN(rapid.SampledFrom(c11Text), 1, 5).Draw(t, "text"))
			ps = append(ps, oracle.Piece{Kind: oracle.PText, Text: txt})
		case 4, 5, 6:
			ps = append(ps, genSGR(t))
		case 7:
			if rapid.Bool().Draw(t, "open") {
				uri := rapid.SampledFrom([]string{"http://a", "file:///x y", "u;v", "h"}).Draw(t, "uri")
				if rapid.Bool().Draw(t, "printableURI") {
					// any printable ASCII character may occur in the payload
					uri = string(rapid.SliceOfN(rapid.ByteRange(0x20, 0x7e), 1, 6).Draw(t, "uriBytes"))
				}
				params := rapid.SampledFrom([]string{"", "id=1", "a=b:c=d", "id=~x_y.z-0"}).Draw(t, "params")
				st := rapid.SampledFrom([]string{"\x1b\\", "\x07"}).Draw(t, "st")
				ps = append(ps, oracle.Piece{Kind: oracle.POSC8Open, URL: uri, Params: params, Text: "\x1b]8;" + params + ";" + uri + st})
			} else {
				st := rapid.SampledFrom([]string{"\x1b\\", "\x07"}).Draw(t, "st")
				ps = append(ps, oracle.Piece{Kind: oracle.POSC8Close, Text: "\x1b]8;;" + st})
			}
		case 8:
			if rapid.IntRange(0, 3).Draw(t, "oscOther") == 0 {
				// a non-hyperlink OSC sequence with an arbitrary printable payload
				num := rapid.SampledFrom([]string{"0", "2", "7", "52", "133", "1337"}).Draw(t, "oscNum")
				payload := string(rapid.SliceOfN(rapid.ByteRange(0x20, 0x7e), 1, 8).Draw(t, "oscPayload"))
				st := rapid.SampledFrom([]string{"\x1b\\", "\x07"}).Draw(t, "st")
				ps = append(ps, oracle.Piece{Kind: oracle.POther, Text: "\x1b]" + num + rapid.SampledFrom([]string{";", ":"}).Draw(t, "oscSep") + payload + st})
				break
			}
			ps = append(ps, oracle.Piece{Kind: oracle.POther, Text: rapid.SampledFrom(otherSeqs).Draw(t, "other")})
		case 9: // a character struck out by a following backspace
			r := rapid.SampledFrom([]rune("axé漢 ")).Draw(t, "struck")
			ps = append(ps, oracle.Piece{Kind: oracle.POther, Text: string(r) + "\x08"})
		}
	}
	return ps
}

func perRuneStyles(offsets *[]ansiOffset, n int) []oracle.CellStyle {
	out := make([]oracle.CellStyle, n)
	for i := range out {
		out[i] = oracle.DefaultStyle()
	}
	if offsets == nil {
		return out
	}
	for _, o := range *offsets {
		for k := o.offset[0]; k < o.offset[1] && int(k) < n; k++ {
			out[k] = toOracleStyle(o.color)
		}
	}
	return out
}

func propC11Grammar(t *rapid.T) {
	nlines := rapid.IntRange(1, 3).Draw(t, "nlines")
	var state *ansiState
	carried := oracle.DefaultStyle()
	key := ""
	nseq, afterSeq := 0, false
	var lastIn, lastOut string
	for li := 0; li < nlines; li++ {
		pieces := genPieces(t, 10)
		in := oracle.RenderPieces(pieces)
		key += in + "\n"
		wantText, wantStyles, end := oracle.InterpretPieces(pieces, carried)
		trimmed, offsets, newState := extractColor(in, state, nil)
		seenSeq := false
		for _, p := range pieces {
			if p.Kind != oracle.PText {
				nseq++
				seenSeq = true
			} else if seenSeq {
				afterSeq = true
			}
		}
		lastIn, lastOut = in, trimmed
		if trimmed != wantText {
			t.Fatalf("line %d %q: stripped text %q, the text pieces are %q", li, in, trimmed, wantText)
		}
		if ref := oracle.StripAnsi(in); ref != wantText {
			t.Fatalf("generator/specification mismatch on %q: %q vs %q", in, ref, wantText)
		}
		n := utf8.RuneCountInString(trimmed)
		if msg := spansWellFormed(offsets, n); msg != "" {
			t.Fatalf("line %d %q: %s", li, in, msg)
		}
		got := perRuneStyles(offsets, n)
		for k := range got {
			if got[k] != wantStyles[k] {
				t.Fatalf("line %d %q (carried-in style %v): character %d (%q) is shown as %v, a terminal shows %v", li, in, carried, k, []rune(trimmed)[k], got[k], wantStyles[k])
			}
		}
		var gotEnd oracle.CellStyle
		if newState == nil {
			gotEnd = oracle.DefaultStyle()
		} else {
			gotEnd = toOracleStyle(*newState)
		}
		if gotEnd != end {
			t.Fatalf("line %d %q (carried-in style %v): style carried to the next line is %v, a terminal carries %v", li, in, carried, gotEnd, end)
		}
		state, carried = newState, end
	}
	nt := nseq >= 2 && afterSeq
	vstat.Case("C11/grammar", key, nt, fmt.Sprintf("lines=%d", nlines))
	if nt && vstat.WantSample("C11/grammar") {
		vstat.Sample("C11/grammar", map[string]interface{}{"last_line": fmt.Sprintf("%q", lastIn), "stripped": lastOut})
	}
}

func TestVerifC11_Grammar(t *testing.T) {
	rapid.Check(t, propC11Grammar)
}

func TestVerifC11_Regress(t *testing.T) {
	for _, c := range []struct{ in, want string }{
		{"\x1b[1mfoo\x1b[mbar", "foobar"},
		{"a\x08b", "b"},
		{"\x1b]8;;http://x\x1b\\link\x1b]8;;\x1b\\", "link"},
		{"plain", "plain"},
		{"x\x1b[", "x\x1b["[:1]},
	} {
		got, _, _ := extractColor(c.in, nil, nil)
		vstat.Case("C11/regress", c.in, true, "regress")
		if got != oracle.StripAnsi(c.in) {
			t.Errorf("%q: stripped %q, specification %q", c.in, got, oracle.StripAnsi(c.in))
		}
	}
	// colour of the last chunk when the line ends with a non-colour sequence
	for _, in := range []string{"\x1b[31mred\x1b[K", "\x1b[1;44mx\x0f", "\x1b[38;5;0ma\x1b[H"} {
		trimmed, offsets, _ := extractColor(in, nil, nil)
		got := perRuneStyles(offsets, utf8.RuneCountInString(trimmed))
		vstat.Case("C11/regress", in, true, "regress")
		for k, st := range got {
			if st == oracle.DefaultStyle() {
				t.Errorf("%q: character %d of %q is shown without the colour set before it", in, k, trimmed)
			}
		}
	}
}
