//go:build verif

package fzf

import (
	"bytes"
	"fmt"
	"os"
	"os/exec"
	"path/filepath"
	"regexp"
	"strings"
	"testing"

	"github.com/junegunn/fzf/src/tui"
	"github.com/junegunn/fzf/src/util"
	"pgregory.net/rapid"
	"verif.local/oracle"
	"verif.local/vstat"
)

// C12 - placeholders expand to shell words that evaluate back to the original
// text. The expansion is handed to the real /bin/sh (dash) and bash.

var c12Frags = []string{"a", "b", " ", "  ", "'", "\"", "\\", "$", "`", "!", "*", "?", "[", "]", "{", "}", "(", ")", "<", ">", "|", "&", ";", "#", "~", "=", "%", "\n", "\t", "-n", "-", "é", "漢",
	"$(touch CANARY)", "`touch CANARY`", "; touch CANARY;", "'; touch CANARY; '", "$HOME", "\\'", "''", "a b", ",", ":", "x,y"}

func c12Text(t *rapid.T, label string) string {
	return strings.Join(rapid.SliceOfN(rapid.SampledFrom(c12Frags), 0, 6).Draw(t, label), "")
}

type phForm struct {
	tmpl string
	// expected words for (current, selected, query, prompt, delim)
	words func(c c12Ctx) []string
}

type c12Ctx struct {
	cur      string
	curIdx   int32
	sel      []string
	selIdx   []int32
	query    string
	prompt   string
	delim    delimSpec
	tempRead map[string]string // file -> expected content
}

func fieldWord(s string, d delimSpec, expr string, preserve bool) string {
	var out strings.Builder
	fields := oracle.Split(s, d.o)
	for _, e := range strings.Split(expr, ",") {
		r, _ := oracle.ParseFieldRange(e)
		txt, _, _ := oracle.Select(fields, r)
		out.WriteString(txt)
	}
	str := out.String()
	switch d.o.Kind {
	case oracle.DelimStr:
		str = strings.TrimSuffix(str, d.o.Str)
	case oracle.DelimRegex:
		locs := d.o.Re.FindAllStringIndex(str, -1)
		if len(locs) > 0 && locs[len(locs)-1][1] == len(str) {
			str = str[:locs[len(locs)-1][0]]
		}
	}
	if !preserve {
		str = strings.TrimSpace(str)
	}
	return str
}

func each(items []string, f func(string) string) []string {
	out := make([]string, len(items))
	for i, s := range items {
		out[i] = f(s)
	}
	return out
}

var phForms = []phForm{
	{"{}", func(c c12Ctx) []string { return []string{c.cur} }},
	{"{+}", func(c c12Ctx) []string { return c.sel }},
	{"{q}", func(c c12Ctx) []string { return []string{c.query} }},
	{"{fzf:query}", func(c c12Ctx) []string { return []string{c.query} }},
	{"{fzf:prompt}", func(c c12Ctx) []string { return []string{c.prompt} }},
	{"{n}", func(c c12Ctx) []string { return []string{fmt.Sprint(c.curIdx)} }},
	{"{+n}", func(c c12Ctx) []string {
		var o []string
		for _, i := range c.selIdx {
			o = append(o, fmt.Sprint(i))
		}
		return o
	}},
	{"{1}", func(c c12Ctx) []string { return []string{fieldWord(c.cur, c.delim, "1", false)} }},
	{"{2..}", func(c c12Ctx) []string { return []string{fieldWord(c.cur, c.delim, "2..", false)} }},
	{"{-1}", func(c c12Ctx) []string { return []string{fieldWord(c.cur, c.delim, "-1", false)} }},
	{"{..}", func(c c12Ctx) []string { return []string{fieldWord(c.cur, c.delim, "..", false)} }},
	{"{1,3}", func(c c12Ctx) []string { return []string{fieldWord(c.cur, c.delim, "1,3", false)} }},
	{"{s1}", func(c c12Ctx) []string { return []string{fieldWord(c.cur, c.delim, "1", true)} }},
	{"{s..2}", func(c c12Ctx) []string { return []string{fieldWord(c.cur, c.delim, "..2", true)} }},
	{"{+1}", func(c c12Ctx) []string {
		return each(c.sel, func(s string) string { return fieldWord(s, c.delim, "1", false) })
	}},
	{"{+s2}", func(c c12Ctx) []string {
		return each(c.sel, func(s string) string { return fieldWord(s, c.delim, "2", true) })
	}},
	{"{q:1}", func(c c12Ctx) []string {
		return []string{fieldWord(c.query, mkDelimSpec(""), "1", false)}
	}},
	{"{q:s2..}", func(c c12Ctx) []string {
		return []string{fieldWord(c.query, mkDelimSpec(""), "2..", true)}
	}},
	// {f} / {+f}: one word, the name of a temporary file (content: PlaceholderFile)
	{"{f}", func(c c12Ctx) []string { return []string{c12FileWord} }},
	{"{+f}", func(c c12Ctx) []string { return []string{c12FileWord} }},
	// {r}: inserted unquoted by definition - only generated for texts that are one plain shell word
	{"{r}", func(c c12Ctx) []string { return []string{c.cur} }},
	{"{r1}", func(c c12Ctx) []string { return []string{fieldWord(c.cur, c.delim, "1", false)} }},
	{"\\{}", func(c c12Ctx) []string { return []string{"{}"} }},
	{"\\{q}", func(c c12Ctx) []string { return []string{"{q}"} }},
	{"\\{+}", func(c c12Ctx) []string { return []string{"{+}"} }},
	{"\\{1}", func(c c12Ctx) []string { return []string{"{1}"} }},
	{"\\{n}", func(c c12Ctx) []string { return []string{"{n}"} }},
}

const c12FileWord = "\x02FILE"

var c12PlainWord = regexp.MustCompile(`^[a-zA-Z0-9_é]+$`)

func runShellWords(t *rapid.T, shell string, cmd string, dir string) []string {
	c := exec.Command(shell, "-c", cmd)
	c.Dir = dir
	c.Env = []string{"PATH=/usr/bin:/bin", "HOME=/nonexistent-home"}
	var stderr bytes.Buffer
	c.Stderr = &stderr
	out, err := c.Output()
	if err != nil {
		t.Fatalf("%s could not evaluate the expansion: %v\nstderr: %s\ncommand: %q", shell, err, stderr.String(), cmd)
	}
	if len(out) == 0 {
		return nil
	}
	return strings.Split(string(bytes.TrimSuffix(out, []byte{0})), "\x00")
}

func TestVerifC12_PlaceholderShell(t *testing.T) {
	work := os.Getenv("VERIF_WORK")
	if work == "" {
		work = os.TempDir()
	}
	dir := filepath.Join(work, "c12-cwd")
	os.MkdirAll(dir, 0o755)
	ex := util.NewExecutor("sh -c") // non-fish escaper
	rapid.Check(t, func(t *rapid.T) {
		var c c12Ctx
		c.cur = c12Text(t, "cur")
		if rapid.IntRange(0, 4).Draw(t, "plainCur") == 0 {
			c.cur = string(rapid.SliceOfN(rapid.SampledFrom([]rune("abXY09_é")), 1, 6).Draw(t, "plain"))
		}
		c.curIdx = int32(rapid.IntRange(0, 100000).Draw(t, "curIdx"))
		c.query = c12Text(t, "query")
		c.prompt = rapid.SampledFrom([]string{"> ", "$ ", "' ", "`x` "}).Draw(t, "prompt")
		c.delim = mkDelimSpec(rapid.SampledFrom([]string{"", "", ",", ":", "[,;]+"}).Draw(t, "delim"))
		nsel := rapid.IntRange(0, 4).Draw(t, "nsel")
		items := []*Item{vItem(c.cur, c.curIdx)}
		for i := 0; i < nsel; i++ {
			s := c12Text(t, "sel")
			idx := int32(rapid.IntRange(0, 100000).Draw(t, "selIdx"))
			c.sel = append(c.sel, s)
			c.selIdx = append(c.selIdx, idx)
			items = append(items, vItem(s, idx))
		}
		if nsel == 0 {
			// without a selection {+} stands for the current item
			items = append(items, items[0])
			c.sel, c.selIdx = []string{c.cur}, []int32{c.curIdx}
		}
		nph := rapid.IntRange(1, 6).Draw(t, "nph")
		tmpl := "printf '%s\\0'"
		var want []string
		var forms []string
		for i := 0; i < nph; i++ {
			f := rapid.SampledFrom(phForms).Draw(t, "form")
			if strings.HasPrefix(f.tmpl, "{r") && !c12PlainWord.MatchString(c.cur) {
				f = phForms[0]
			}
			tmpl += " " + f.tmpl
			forms = append(forms, f.tmpl)
			want = append(want, f.words(c)...)
		}
		cmd, temps := replacePlaceholder(replacePlaceholderParams{template: tmpl, delimiter: c.delim.d, printsep: "\n",
			query: c.query, allItems: items, prompt: c.prompt, executor: ex})
		removeFiles(temps)
		isTemp := map[string]bool{}
		for _, f := range temps {
			isTemp[f] = true
		}
		hostile := false
		for _, s := range append([]string{c.cur, c.query}, c.sel...) {
			if strings.ContainsAny(s, "'\\\n$`") {
				hostile = true
			}
		}
		vstat.Case("C12/shell", fmt.Sprintf("%q|%q|%q|%v|%s", c.cur, c.sel, c.query, forms, c.delim.arg), hostile, fmt.Sprintf("nsel=%d", nsel), "delim="+c.delim.arg)
		if hostile && vstat.WantSample("C12/shell") {
			vstat.Sample("C12/shell", map[string]interface{}{"template": tmpl, "current": c.cur, "selected": c.sel, "query": c.query, "expansion": cmd})
		}
		os.Remove(filepath.Join(dir, "CANARY"))
		for _, sh := range []string{"/bin/sh", "/bin/bash"} {
			got := runShellWords(t, sh, cmd, dir)
			cmp := append([]string{}, got...)
			for i := range cmp {
				if i < len(want) && want[i] == c12FileWord && isTemp[cmp[i]] {
					cmp[i] = c12FileWord
				}
			}
			if strings.Join(cmp, "\x01") != strings.Join(want, "\x01") || len(got) != len(want) {
				t.Fatalf("%s: template %q\ncurrent %q selected %q query %q delimiter %q\nexpansion %q\nwords got  %q\nwords want %q", sh, tmpl, c.cur, c.sel, c.query, c.delim.arg, cmd, got, want)
			}
			if _, err := os.Stat(filepath.Join(dir, "CANARY")); err == nil {
				t.Fatalf("%s executed input data as shell syntax (CANARY file created): template %q current %q selected %q query %q expansion %q", sh, tmpl, c.cur, c.sel, c.query, cmd)
			}
		}
	})
}

// {f} / {+f}: the word is a file that holds the items, one per line.
func TestVerifC12_PlaceholderFile(t *testing.T) {
	ex := util.NewExecutor("sh -c")
	rapid.Check(t, func(t *rapid.T) {
		cur := c12Text(t, "cur")
		nsel := rapid.IntRange(1, 4).Draw(t, "nsel")
		items := []*Item{vItem(cur, 3)}
		var sel []string
		for i := 0; i < nsel; i++ {
			s := c12Text(t, "sel")
			sel = append(sel, s)
			items = append(items, vItem(s, int32(10+i)))
		}
		plus := rapid.Bool().Draw(t, "plus")
		sep := rapid.SampledFrom([]string{"\n", "\x00"}).Draw(t, "printsep")
		tmpl := "cat {f}"
		want := cur + sep
		if plus {
			tmpl = "cat {+f}"
			want = strings.Join(sel, sep) + sep
		}
		cmd, temps := replacePlaceholder(replacePlaceholderParams{template: tmpl, delimiter: Delimiter{}, printsep: sep, query: "", allItems: items, executor: ex})
		vstat.Case("C12/file", fmt.Sprintf("%q|%q|%v|%q", cur, sel, plus, sep), strings.ContainsAny(want, "'\\$`"), fmt.Sprintf("plus=%v", plus))
		if len(temps) != 1 || !strings.HasPrefix(cmd, "cat ") {
			t.Fatalf("template %q expanded to %q with temp files %v", tmpl, cmd, temps)
		}
		data, err := os.ReadFile(temps[0])
		removeFiles(temps)
		if err != nil {
			t.Fatalf("temp file %q not readable: %v", temps[0], err)
		}
		if string(data) != want {
			t.Fatalf("template %q: file holds %q, expected %q", tmpl, data, want)
		}
		if _, err := os.Stat(temps[0]); err == nil {
			t.Fatalf("temp file %s still exists after removeFiles", temps[0])
		}
	})
}

// fish quoting (fish is not installed): model of fish's single-quote syntax.
func unquoteFish(s string) (string, bool) {
	if len(s) < 2 || s[0] != '\'' || s[len(s)-1] != '\'' {
		return "", false
	}
	body := s[1 : len(s)-1]
	var sb strings.Builder
	for i := 0; i < len(body); i++ {
		if body[i] == '\\' && i+1 < len(body) && (body[i+1] == '\\' || body[i+1] == '\'') {
			sb.WriteByte(body[i+1])
			i++
			continue
		}
		if body[i] == '\'' {
			return "", false // unescaped quote ends the word early
		}
		sb.WriteByte(body[i])
	}
	return sb.String(), true
}

func TestVerifC12_FishModel(t *testing.T) {
	ex := util.NewExecutor("/usr/bin/fish -c")
	rapid.Check(t, func(t *rapid.T) {
		s := c12Text(t, "text")
		q := ex.QuoteEntry(s)
		back, ok := unquoteFish(q)
		vstat.Case("C12/fish-model", s, strings.ContainsAny(s, "'\\"), "fish")
		if !ok || back != s {
			t.Fatalf("fish quoting of %q is %q, which fish reads back as %q (ok=%v)", s, q, back, ok)
		}
	})
}

// Re-quoting of arguments and environment used to re-launch fzf inside tmux.
func propC12TmuxRequote(t *rapid.T) {
	work := os.Getenv("VERIF_WORK")
	if work == "" {
		work = os.TempDir()
	}
	dir := filepath.Join(work, "c12-cwd2")
	os.MkdirAll(dir, 0o755)
	n := rapid.IntRange(1, 5).Draw(t, "nargs")
	var args []string
	for i := 0; i < n; i++ {
		args = append(args, c12Text(t, "arg"))
	}
	nenv := rapid.IntRange(0, 3).Draw(t, "nenv")
	script := ""
	var want []string
	for i := 0; i < nenv; i++ {
		v := c12Text(t, "envval")
		script += fmt.Sprintf("export V%d=%s\n", i, escapeSingleQuote(v))
		want = append(want, v)
	}
	script += "printf '%s\\0'"
	for i := 0; i < nenv; i++ {
		script += fmt.Sprintf(" \"$V%d\"", i)
	}
	for _, a := range args {
		script += " " + escapeSingleQuote(a)
		want = append(want, a)
	}
	hostile := strings.ContainsAny(strings.Join(want, ""), "'\\\n$`")
	vstat.Case("C12/tmux-requote", fmt.Sprintf("%q", want), hostile, fmt.Sprintf("nenv=%d", nenv))
	os.Remove(filepath.Join(dir, "CANARY"))
	for _, sh := range []string{"/bin/sh", "/bin/bash"} {
		got := runShellWords(t, sh, script, dir)
		if strings.Join(got, "\x01") != strings.Join(want, "\x01") || len(got) != len(want) {
			t.Fatalf("%s: script %q\n got  %q\n want %q", sh, script, got, want)
		}
		if _, err := os.Stat(filepath.Join(dir, "CANARY")); err == nil {
			t.Fatalf("%s executed data as shell syntax: script %q", sh, script)
		}
	}
}

func TestVerifC12_TmuxRequote(t *testing.T) {
	rapid.Check(t, propC12TmuxRequote)
}

// The re-launch itself: runTmux builds the command line of the fzf that runs inside the popup
// from the arguments and the environment of this one. tmux is replaced by a stand-in that runs
// the "sh <script>" pair it is handed as the popup command, and the fzf named by the first
// argument by one that writes down its argument vector and the environment variables under
// test; /bin/sh evaluates the script fzf wrote. Every argument must arrive as one word, in
// order, between the words fzf adds on its own, and every variable with its value.
func TestVerifC12_TmuxRelaunch(t *testing.T) {
	work := os.Getenv("VERIF_WORK")
	if work == "" {
		work = os.TempDir()
	}
	dir, err := os.MkdirTemp(work, "c12 re'launch $x")
	if err != nil {
		t.Fatal(err)
	}
	defer os.RemoveAll(dir)
	dump := filepath.Join(dir, "argv")
	standInFzf := filepath.Join(dir, "fzf")
	os.WriteFile(standInFzf, []byte("#!/bin/sh\n{ printf '%s\\0' \"$VERIF_E0\" \"$VERIF_E1\"; for a in \"$@\"; do printf '%s\\0' \"$a\"; done; } > \"$VERIF_C12_DUMP\"\n"), 0o755)
	os.WriteFile(filepath.Join(dir, "tmux"), []byte("#!/bin/sh\nfor a in \"$@\"; do prev=$last; last=$a; done\nexec \"$prev\" \"$last\"\n"), 0o755)
	os.Setenv("PATH", dir+string(os.PathListSeparator)+os.Getenv("PATH"))
	os.Setenv("VERIF_C12_DUMP", dump)
	rapid.Check(t, func(t *rapid.T) {
		n := rapid.IntRange(0, 5).Draw(t, "nargs")
		var user []string
		for i := 0; i < n; i++ {
			user = append(user, c12Text(t, "arg"))
		}
		env := []string{c12Text(t, "env0"), c12Text(t, "env1")}
		os.Setenv("VERIF_E0", env[0])
		os.Setenv("VERIF_E1", env[1])
		opts := defaultOptions()
		opts.Tmux = &tmuxOptions{width: sizeSpec{50, true}, height: sizeSpec{50, true}, position: posCenter}
		opts.Tmux.border = rapid.Bool().Draw(t, "borderNative")
		if rapid.IntRange(0, 2).Draw(t, "marginGiven") == 0 {
			opts.Margin = [4]sizeSpec{{1, false}, {1, false}, {1, false}, {1, false}}
		}
		if rapid.IntRange(0, 2).Draw(t, "borderGiven") == 0 {
			opts.BorderShape = tui.BorderRounded
		}
		want := []string{"--bind=ctrl-z:ignore"}
		if opts.Tmux.border && opts.Margin == defaultMargin() {
			want = append(want, "--margin=0,1")
		}
		want = append(want, user...)
		if !opts.Tmux.border && opts.BorderShape == tui.BorderUndefined {
			want = append(want, "--border")
		}
		want = append(want, "--no-tmux", "--no-height", "--no-force-tty-in", "--proxy-script")
		// the argument vector is handed over the way main does: program name first, in one array
		argv := make([]string, 0, n+1)
		argv = append(argv, standInFzf)
		argv = append(argv, user...)
		os.Remove(dump)
		code, err := runTmux(argv, opts)
		if err != nil || code != ExitOk {
			t.Fatalf("runTmux(%q): status %d, %v", argv, code, err)
		}
		data, err := os.ReadFile(dump)
		if err != nil {
			t.Fatalf("runTmux(%q): the re-launched command did not run: %v", argv, err)
		}
		if _, err := os.Stat("CANARY"); err == nil {
			os.Remove("CANARY")
			t.Fatalf("runTmux(%q) with the environment values %q: data was executed as shell syntax", argv, env)
		}
		got := strings.Split(strings.TrimSuffix(string(data), "\x00"), "\x00")
		hostile := strings.ContainsAny(strings.Join(append(append([]string{}, user...), env...), ""), "'\\\n$`")
		vstat.Case("C12/tmux-relaunch", fmt.Sprintf("%q %q %v %v", user, env, opts.Tmux.border, opts.Margin == defaultMargin()), hostile && n >= 1, fmt.Sprintf("nargs=%d", n), fmt.Sprintf("border_native=%v", opts.Tmux.border))
		if len(got) < 2 || got[0] != env[0] || got[1] != env[1] {
			t.Fatalf("environment values %q arrive in the popup as %q", env, got[:imin(len(got), 2)])
		}
		got = got[2:]
		// the last word is the path of the script
		if len(got) > 0 {
			got = got[:len(got)-1]
		}
		if fmt.Sprintf("%q", got) != fmt.Sprintf("%q", want) {
			t.Fatalf("fzf started with the arguments %q (tmux border-native=%v, margin given=%v, border given=%v) re-launches itself with\n  %q\nexpected\n  %q", user, opts.Tmux.border, opts.Margin != defaultMargin(), opts.BorderShape != tui.BorderUndefined, got, want)
		}
	})
}
