//go:build verif

package fzf

import (
	"fmt"
	"sync"
	"sync/atomic"
	"testing"
	"time"

	"github.com/junegunn/fzf/src/algo"
	"github.com/junegunn/fzf/src/util"
	"pgregory.net/rapid"
	"verif.local/oracle"
	"verif.local/vstat"
)

// C13 - loading and searching run concurrently without interfering.

// (a) a loader goroutine appends while snapshots are taken and scanned in
// parallel partitions with a shared cache.
func TestVerifC13_LoadWhileSearching(t *testing.T) {
	rapid.Check(t, func(t *rapid.T) {
		algo.Init("default")
		sortCriteria = []criterion{byScore, byLength}
		total := rapid.SampledFrom([]int{50, 150, 400, 1200, 2500}).Draw(t, "total")
		tail := rapid.SampledFrom([]int{0, 0, 0, 70, 100, 330}).Draw(t, "tail")
		nsnap := rapid.IntRange(1, 8).Draw(t, "snapshots")
		parts := rapid.SampledFrom([]int{1, 2, 8, 32}).Draw(t, "partitions")
		query := rapid.SampledFrom([]string{"a", "ab", "'b", "!a", "a b", "^x", ""}).Draw(t, "query")
		yieldEvery := rapid.SampledFrom([]int{1, 7, 64, 1000}).Draw(t, "yieldEvery")
		cache := NewChunkCache()
		idx := int32(0)
		cl := NewChunkList(cache, func(item *Item, data []byte) bool {
			item.text = util.ToChars(data)
			item.text.Index = idx
			idx++
			return true
		})
		// the number of matching lines varies from chunk to chunk (0..30 of 100) and
		// so does their relevance, so that per-chunk result lists of very different
		// sizes and ranks meet in one partition
		density := make([]int, total/chunkSize+1)
		for c := range density {
			density[c] = rapid.SampledFrom([]int{0, 1, 2, 3, 5, 9, 14, 30}).Draw(t, "density")
		}
		lineOf := func(i int) string {
			if i%chunkSize < density[i/chunkSize] {
				switch (i / 3) % 4 {
				case 0:
					return fmt.Sprintf("ab-%d", i)
				case 1:
					return fmt.Sprintf("xx a-b %d", i)
				case 2:
					return fmt.Sprintf("x b %d", i)
				}
				return fmt.Sprintf("zzazzzzbzz long tail %d", i)
			}
			return fmt.Sprintf("zzz%d", i)
		}
		var pushed int64
		var wg sync.WaitGroup
		wg.Add(1)
		go func() {
			defer wg.Done()
			for i := 0; i < total; i++ {
				cl.Push([]byte(lineOf(i)))
				atomic.StoreInt64(&pushed, int64(i+1))
				if i%yieldEvery == 0 {
					time.Sleep(time.Microsecond)
				}
			}
		}()
		pc := map[string]*Pattern{}
		mk := func(c *ChunkCache, cacheable bool) *Pattern {
			m := pc
			if !cacheable {
				m = map[string]*Pattern{}
			}
			return BuildPattern(c, m, true, algo.FuzzyMatchV2, true, CaseSmart, true, true, false, cacheable, nil, Delimiter{}, revision{}, []rune(query), nil)
		}
		m := NewMatcher(cache, nil, true, false, util.NewEventBox(), revision{})
		m.partitions = parts
		m.slab = make([]*util.Slab, parts)
		type snapRec struct {
			chunks []*Chunk
			count  int
			texts  []string
			idxs   []int32
		}
		var snaps []snapRec
		partialLast := false
		for s := 0; s < nsnap; s++ {
			before := atomic.LoadInt64(&pushed)
			chunks, count, _ := cl.Snapshot(tail)
			after := atomic.LoadInt64(&pushed)
			rec := snapRec{chunks: chunks, count: count}
			for _, ch := range chunks {
				for i := 0; i < ch.count; i++ {
					rec.texts = append(rec.texts, ch.items[i].text.ToString())
					rec.idxs = append(rec.idxs, ch.items[i].Index())
				}
			}
			if len(chunks) > 0 && chunks[len(chunks)-1].count < chunkSize && after < int64(total) {
				partialLast = true
			}
			// frozen prefix: a contiguous run of input ordinals ending between `before` and `after`
			if len(rec.texts) != count {
				t.Fatalf("snapshot %d reports %d items but holds %d", s, count, len(rec.texts))
			}
			if count > 0 {
				lastOrd := int(rec.idxs[count-1])
				if int64(lastOrd+1) < before || int64(lastOrd+1) > after+1 {
					t.Fatalf("snapshot %d ends at ordinal %d although %d..%d items had been appended", s, lastOrd, before, after)
				}
				for i := 0; i < count; i++ {
					ord := lastOrd - (count - 1 - i)
					if int(rec.idxs[i]) != ord || rec.texts[i] != lineOf(ord) {
						t.Fatalf("snapshot %d (tail=%d): position %d holds item #%d %q, expected the contiguous input #%d %q", s, tail, i, rec.idxs[i], rec.texts[i], ord, lineOf(ord))
					}
				}
				if tail > 0 && count > tail {
					t.Fatalf("snapshot %d holds %d items with --tail=%d", s, count, tail)
				}
				if tail == 0 && int(rec.idxs[0]) != 0 {
					t.Fatalf("snapshot %d does not start at the first item", s)
				}
			}
			// a search on the snapshot while loading goes on
			merger, cancelled := m.scan(MatchRequest{chunks: chunks, pattern: mk(cache, true), sort: true})
			if cancelled {
				t.Fatalf("scan cancelled without a request")
			}
			want := sequentialOracle(chunks, mk, true, false)
			if d := sameResults(mergerResults(merger), want, !merger.pass); d != "" {
				t.Fatalf("search on snapshot %d (%d items, %d partitions, query %q) while the loader was running differs from the sequential filter of that snapshot: %s", s, count, parts, query, d)
			}
			if merger.Length() != len(want) {
				t.Fatalf("merger count %d vs %d", merger.Length(), len(want))
			}
			snaps = append(snaps, rec)
			time.Sleep(time.Duration(rapid.IntRange(0, 300).Draw(t, "gapUs")) * time.Microsecond)
		}
		wg.Wait()
		// items never change after they have been read
		for s, rec := range snaps {
			k := 0
			for _, ch := range rec.chunks {
				for i := 0; i < ch.count; i++ {
					if ch.items[i].text.ToString() != rec.texts[k] || ch.items[i].Index() != rec.idxs[k] {
						t.Fatalf("snapshot %d: item at position %d changed after the snapshot was taken: %q -> %q", s, k, rec.texts[k], ch.items[i].text.ToString())
					}
					k++
				}
			}
			if k != rec.count {
				t.Fatalf("snapshot %d: item count changed from %d to %d after later appends", s, rec.count, k)
			}
		}
		vstat.Case("C13/load-while-searching", fmt.Sprint(total, tail, nsnap, parts, query, yieldEvery), partialLast, fmt.Sprintf("tail=%d", tail), fmt.Sprintf("partitions=%d", parts), fmt.Sprintf("partial_last_chunk=%v", partialLast))
		if partialLast && vstat.WantSample("C13/load-while-searching") {
			vstat.Sample("C13/load-while-searching", map[string]interface{}{"total": total, "tail": tail, "snapshots": nsnap, "partitions": parts, "query": query})
		}
	})
}

// (b) bounded exhaustive enumeration of cancellation points: for a list of c
// chunks a superseding request arrives exactly after the k-th counted chunk,
// for every k; the superseded search publishes nothing and the published
// result is the sequential filter of the superseding request.
func TestVerifC13_CancellationPoints(t *testing.T) {
	algo.Init("default")
	sortCriteria = []criterion{byScore, byLength}
	maxChunks := 6
	if thorough() {
		maxChunks = 12
	}
	si, sn := shard()
	queries := [][2]string{{"a", "ab"}, {"ab", "a"}, {"a", "b"}, {"a", "!a"}, {"b", ""}, {"", "a"}, {"'ab", "ab"}, {"a", "a"}}
	caseNo := 0
	for c := 1; c <= maxChunks; c++ {
		for _, extra := range []int{0, 37} {
			n := c*chunkSize - extra
			if n <= 0 {
				continue
			}
			var lines []string
			for i := 0; i < n; i++ {
				switch i % 5 {
				case 0:
					lines = append(lines, fmt.Sprintf("ab%d", i))
				case 1:
					lines = append(lines, fmt.Sprintf("b-%d", i))
				default:
					lines = append(lines, "zzz")
				}
			}
			for _, parts := range []int{1, 3, 32} {
				for k := 1; k <= c; k++ {
					for _, qp := range queries {
						caseNo++
						if caseNo%sn != si {
							continue
						}
						runCancellationCase(t, lines, c, parts, k, qp[0], qp[1])
					}
				}
			}
		}
	}
	vstat.Exhaustive("C13/cancellation-points", fmt.Sprintf("every cancellation point k=1..c for lists of c=1..%d chunks (full and partial last chunk) x partitions {1,3,32} x 8 query pairs (shard %d/%d)", maxChunks, si, sn))
}

func runCancellationCase(t *testing.T, lines []string, c, parts, k int, q1, q2 string) {
	cache := NewChunkCache()
	_, chunks := buildChunks(lines, 0)
	eventBox := util.NewEventBox()
	pc := map[string]*Pattern{}
	var pcMu sync.Mutex
	build := func(cc *ChunkCache, m map[string]*Pattern, cacheable bool, q string) *Pattern {
		return BuildPattern(cc, m, true, algo.FuzzyMatchV2, true, CaseSmart, true, true, false, cacheable, nil, Delimiter{}, revision{}, []rune(q), nil)
	}
	m := NewMatcher(cache, func(runes []rune) *Pattern {
		pcMu.Lock()
		defer pcMu.Unlock()
		return build(cache, pc, true, string(runes))
	}, true, false, eventBox, revision{})
	m.partitions = parts
	m.slab = make([]*util.Slab, parts)
	var mu sync.Mutex
	injected := false
	var publishedCounts []int
	pubCh := make(chan struct{}, 16)
	verifHook = func(point string, a, b int) {
		switch point {
		case "scan.counted":
			mu.Lock()
			doit := !injected && a == k
			if doit {
				injected = true
			}
			mu.Unlock()
			if doit {
				m.Reset(chunks, []rune(q2), true, true, true, revision{})
			}
		case "loop.publish":
			mu.Lock()
			publishedCounts = append(publishedCounts, a)
			mu.Unlock()
			pubCh <- struct{}{}
		}
	}
	defer func() { verifHook = nil }()
	go m.Loop()
	defer m.Stop()
	m.Reset(chunks, []rune(q1), true, false, true, revision{})
	select {
	case <-pubCh:
	case <-time.After(30 * time.Second):
		t.Fatalf("c=%d partitions=%d k=%d %q->%q: nothing published within 30 s", c, parts, k, q1, q2)
	}
	// give a wrongly published second result the chance to show up
	var merger *Merger
	readBox := func() {
		eventBox.Wait(func(events *util.Events) {
			if v, ok := (*events)[EvtSearchFin]; ok {
				merger = v.(*Merger)
			}
			events.Clear()
		})
	}
	readBox()
	mu.Lock()
	inj := injected
	mu.Unlock()
	if inj {
		// the superseding request must be answered (possibly after the first publish when k was the last chunk)
		mk2 := func(cc *ChunkCache, cacheable bool) *Pattern { return build(cc, map[string]*Pattern{}, cacheable, q2) }
		want := sequentialOracle(chunks, mk2, true, false)
		ok := waitUntil(20*time.Second, func() bool {
			if merger != nil && merger.final && sameResults(mergerResults(merger), want, !merger.pass) == "" {
				return true
			}
			select {
			case <-pubCh:
				readBox()
			default:
			}
			return false
		})
		if !ok {
			t.Fatalf("%d chunks, %d partitions, superseding request %q after chunk %d of the search for %q: the published list is not the filter of %q (%d results published, %d expected)", c, parts, q2, k, q1, q2, merger.Length(), len(want))
		}
		mu.Lock()
		pubs := append([]int{}, publishedCounts...)
		mu.Unlock()
		// k < c: the first search was cut short and must not have published anything
		if k < c && len(pubs) != 1 {
			t.Fatalf("%d chunks, %d partitions: the search for %q was superseded after chunk %d of %d but %d lists were published (%v)", c, parts, q1, k, c, len(pubs), pubs)
		}
	}
	nt := inj && k < c
	vstat.Case("C13/cancellation-points", fmt.Sprint(len(lines), parts, k, q1, q2), nt, fmt.Sprintf("chunks=%d", c), fmt.Sprintf("partitions=%d", parts))
}

// (d) the real loader (Reader.feed over scripted reads that cut records at
// arbitrary places) fills the chunk list while snapshots are taken and
// searched: what a snapshot held when it was taken is what it holds after the
// stream has ended, and it is the true content of the records.
func TestVerifC13_FeedWhileSearching(t *testing.T) {
	rapid.Check(t, func(t *rapid.T) {
		algo.Init("default")
		sortCriteria = []criterion{byScore, byLength}
		stream, lens := genStream(t, '\n', false)
		// make the stream longer: several copies with running numbers so that chunks fill up
		copies := rapid.SampledFrom([]int{1, 5, 40}).Draw(t, "copies")
		var big []byte
		for c := 0; c < copies; c++ {
			big = append(big, stream...)
			if len(stream) > 0 && stream[len(stream)-1] != '\n' {
				big = append(big, '\n')
			}
		}
		cuts, zeros := genCuts(t, big, '\n')
		want := oracle.SplitRecords(big, '\n')
		cache := NewChunkCache()
		idx := int32(0)
		cl := NewChunkList(cache, func(item *Item, data []byte) bool {
			item.text = util.ToChars(data)
			item.text.Index = idx
			idx++
			return true
		})
		r := NewReader(func(b []byte) bool { return cl.Push(b) }, util.NewEventBox(), util.NewExecutor(""), false, false)
		gate := make(chan struct{}, 64)
		src := &gatedReader{scriptedReader: scriptedReader{data: big, cuts: cuts, zeros: zeros}, gate: gate, open: make(chan struct{})}
		var wg sync.WaitGroup
		wg.Add(1)
		go func() {
			defer wg.Done()
			r.feed(src)
		}()
		type snap struct {
			chunks []*Chunk
			texts  []string
		}
		var snaps []snap
		query := rapid.SampledFrom([]string{"a", "ab", "'b", "0", ""}).Draw(t, "query")
		m := NewMatcher(cache, nil, true, false, util.NewEventBox(), revision{})
		nsnap := rapid.IntRange(1, 6).Draw(t, "snapshots")
		straddled := false
		for s := 0; s < nsnap; s++ {
			// let the loader do a few more reads, then look
			for k := rapid.IntRange(0, 6).Draw(t, "reads"); k > 0; k-- {
				select {
				case gate <- struct{}{}:
				default:
				}
			}
			time.Sleep(time.Duration(rapid.IntRange(0, 200).Draw(t, "us")) * time.Microsecond)
			chunks, count, _ := cl.Snapshot(0)
			rec := snap{chunks: chunks}
			for _, ch := range chunks {
				for i := 0; i < ch.count; i++ {
					rec.texts = append(rec.texts, ch.items[i].text.ToString())
				}
			}
			if len(rec.texts) != count {
				t.Fatalf("snapshot %d reports %d items but holds %d", s, count, len(rec.texts))
			}
			for i, txt := range rec.texts {
				// (non-ASCII records are held as decoded characters: invalid sequences read back as U+FFFD)
				if i >= len(want) || txt != string([]rune(string(want[i]))) {
					t.Fatalf("snapshot %d: item %d is %q, the record is %q (record lengths %v x%d, %d cuts)", s, i, txt, recordOrNone(want, i), lens, copies, len(cuts))
				}
			}
			if count > 0 && count < len(want) {
				straddled = true
			}
			pat := BuildPattern(cache, map[string]*Pattern{}, true, algo.FuzzyMatchV2, true, CaseSmart, true, true, false, true, nil, Delimiter{}, revision{}, []rune(query), nil)
			merger, _ := m.scan(MatchRequest{chunks: chunks, pattern: pat, sort: true})
			n := 0
			for _, txt := range rec.texts {
				fresh := BuildPattern(NewChunkCache(), map[string]*Pattern{}, true, algo.FuzzyMatchV2, true, CaseSmart, true, true, false, false, nil, Delimiter{}, revision{}, []rune(query), nil)
				if res, _, _ := fresh.MatchItem(vItem(txt, 0), false, nil); res != nil {
					n++
				}
			}
			if merger.Length() != n {
				t.Fatalf("snapshot %d (%d items): the search for %q finds %d items, a sequential filter of what the snapshot held finds %d", s, count, query, merger.Length(), n)
			}
			snaps = append(snaps, rec)
		}
		close(src.open)
		wg.Wait()
		for s, rec := range snaps {
			k := 0
			for _, ch := range rec.chunks {
				for i := 0; i < ch.count; i++ {
					if got := ch.items[i].text.ToString(); got != rec.texts[k] {
						t.Fatalf("snapshot %d: item %d changed from %q to %q after the snapshot was taken (record lengths %v x%d, cuts %v)", s, k, rec.texts[k], got, lens, copies, headInts(cuts))
					}
					k++
				}
			}
		}
		vstat.Case("C13/feed-while-searching", fmt.Sprintf("%d|%v|%d|%v|%s", len(big), lens, copies, headInts(cuts), query), straddled && len(cuts) > 0, fmt.Sprintf("copies=%d", copies))
	})
}

func recordOrNone(recs [][]byte, i int) string {
	if i < len(recs) {
		return string(recs[i])
	}
	return "<none>"
}

// gatedReader delivers a read only when the test has opened the gate for it
// (or after the gate was opened for good), so that snapshots fall between reads.
type gatedReader struct {
	scriptedReader
	gate chan struct{}
	open chan struct{}
	once sync.Once
}

func (g *gatedReader) Read(p []byte) (int, error) {
	g.once.Do(func() {})
	select {
	case <-g.gate:
	case <-g.open:
	case <-time.After(2 * time.Millisecond):
	}
	return g.scriptedReader.Read(p)
}

// (f) a superseded search that is still running when the cache is cleared (an
// exclude or a change of --nth arrived) finishes its chunks afterwards. What
// it found must not reach the searches that are started after the clearing -
// from the very first clearing on.
func TestVerifC13_LateCacheWrites(t *testing.T) {
	rapid.Check(t, func(t *rapid.T) {
		algo.Init("default")
		sortCriteria = []criterion{byScore, byLength}
		n := rapid.SampledFrom([]int{100, 200, 300}).Draw(t, "n")
		lines := lowSelectivityLines(t, n)
		_, chunks := buildChunks(lines, 0)
		cache := NewChunkCache()
		slab := util.MakeSlab(slab16Size, slab32Size)
		query := rapid.SampledFrom([]string{"a", "ab", "b", "'a"}).Draw(t, "query")
		deny := map[int32]struct{}{}
		mk := func(c *ChunkCache, cacheable bool) *Pattern {
			d := map[int32]struct{}{}
			for k := range deny {
				d[k] = struct{}{}
			}
			return BuildPattern(c, map[string]*Pattern{}, true, algo.FuzzyMatchV2, true, CaseSmart, true, true, false, cacheable, nil, Delimiter{}, revision{}, []rune(query), d)
		}
		rounds := rapid.IntRange(1, 4).Draw(t, "rounds")
		late := 0
		var history []string
		for r := 0; r < rounds; r++ {
			older := mk(cache, true) // a search started now ...
			if rapid.Bool().Draw(t, "searchedBefore") {
				for _, c := range chunks {
					older.Match(c, slab)
				}
				history = append(history, "search")
			}
			// ... is overtaken by an exclude: the cache is cleared, new searches carry the new deny list
			var matching []int32
			for _, c := range chunks {
				for _, res := range mk(NewChunkCache(), false).Match(c, slab) {
					matching = append(matching, res.item.Index())
				}
			}
			if len(matching) > 0 {
				deny[matching[rapid.IntRange(0, len(matching)-1).Draw(t, "excluded")]] = struct{}{}
			}
			cache.Clear()
			history = append(history, fmt.Sprintf("exclude (%d excluded)", len(deny)))
			newer := mk(cache, true)
			// the overtaken search finishes some chunks after the clearing
			for ci, c := range chunks {
				if rapid.Bool().Draw(t, "lateChunk") {
					older.Match(c, slab)
					late++
					history = append(history, fmt.Sprintf("late write for chunk %d", ci))
				}
			}
			var got, want []Result
			fresh := mk(NewChunkCache(), false)
			for _, c := range chunks {
				got = append(got, newer.Match(c, slab)...)
				want = append(want, fresh.Match(c, slab)...)
			}
			if d := sameResults(got, want, true); d != "" {
				t.Fatalf("query %q, history %v: the search started after the exclusion differs from a fresh evaluation with the same exclusions: %s\nlines: %q", query, history, d, compactLines(lines))
			}
		}
		vstat.Case("C13/late-cache-writes", fmt.Sprintf("%s|%v|%q", query, history, lines), late > 0 && len(deny) > 0, fmt.Sprintf("rounds=%d", rounds))
	})
}
