//go:build verif

package fzf

import (
	"fmt"
	"net"
	"regexp"
	"strconv"
	"strings"
	"testing"
	"time"

	"pgregory.net/rapid"
	"verif.local/vstat"
)

// C16 - the --listen endpoint is robust and enforces its access rules
// (request handler level; the live endpoint is exercised by the process harness).

type c16Result struct {
	response string
	actions  [][]*action
	gets     []getParams
	hung     bool
}

// serve feeds the byte chunks to the request handler over a pipe, then closes
// the client side (a client that stops sending).
// what the terminal hands to the server for a GET: any text, percent signs included
const c16State = `{"state":"SECRET-STATE","query":"100%s 50% off %d %v%%","current":"a%20b"}`

func c16Serve(key string, chunks [][]byte) c16Result {
	var res c16Result
	ch := make(chan []*action, 4)
	srv := &httpServer{apiKey: []byte(key), actionChannel: ch, getHandler: func(p getParams) string {
		res.gets = append(res.gets, p)
		return c16State
	}}
	client, server := net.Pipe()
	done := make(chan string, 1)
	go func() { done <- srv.handleHttpRequest(server) }()
	go func() {
		for _, c := range chunks {
			if len(c) == 0 {
				continue
			}
			client.SetWriteDeadline(time.Now().Add(3 * time.Second))
			if _, err := client.Write(c); err != nil {
				break
			}
		}
		client.Close()
	}()
	select {
	case res.response = <-done:
	case <-time.After(20 * time.Second):
		res.hung = true
	}
	server.Close()
	for {
		select {
		case a := <-ch:
			res.actions = append(res.actions, a)
			continue
		default:
		}
		break
	}
	return res
}

var statusLineRe = regexp.MustCompile(`^HTTP/1\.1 (\d{3}) [A-Za-z][A-Za-z ]*$`)

// wellFormed checks the answer: status line CRLF, headers CRLF, blank line,
// Content-Length (when present) equal to the body length.
func httpWellFormed(resp string) (status int, body string, msg string) {
	head, body, ok := strings.Cut(resp, "\r\n\r\n")
	if !ok {
		return 0, "", "no blank line after the headers"
	}
	lines := strings.Split(head, "\r\n")
	m := statusLineRe.FindStringSubmatch(lines[0])
	if m == nil {
		return 0, "", fmt.Sprintf("bad status line %q", lines[0])
	}
	status, _ = strconv.Atoi(m[1])
	cl := -1
	for _, h := range lines[1:] {
		name, val, ok := strings.Cut(h, ":")
		if !ok || name == "" || strings.ContainsAny(name, " \t\r\n") {
			return status, body, fmt.Sprintf("bad header line %q", h)
		}
		if strings.EqualFold(name, "Content-Length") {
			n, err := strconv.Atoi(strings.TrimSpace(val))
			if err != nil {
				return status, body, fmt.Sprintf("bad Content-Length %q", val)
			}
			cl = n
		}
	}
	if cl >= 0 && cl != len(body) {
		return status, body, fmt.Sprintf("Content-Length %d but body has %d bytes", cl, len(body))
	}
	if cl < 0 && len(body) > 0 {
		return status, body, "body without Content-Length"
	}
	return status, body, ""
}

func actionsEqual(a, b []*action) bool {
	if len(a) != len(b) {
		return false
	}
	for i := range a {
		if a[i].t != b[i].t || a[i].a != b[i].a {
			return false
		}
	}
	return true
}

var c16Bodies = []string{"up", "down+up", "change-query(foo)", "change-query(a)+up+reload(echo x)", "execute-silent(touch /tmp/x)", "put(é)+accept", "pos(3)", "change-prompt:> ",
	"", "bogus-action", "up+", "(((", "reload", "toggle-all\n", "\r\nup\r\n", "change-query(a\r\nb)", "up\r\n\r\ndown", strings.Repeat("up+", 30) + "up", "become(echo {})", "transform:echo up"}

type c16Req struct {
	method    string // GET, GETQ, POST, OTHER
	line      string
	keyMode   string // none, exact, padded, upper-name, wrong, prefix, suffix, empty, decoy
	clMode    string // exact, absent, zero, short, long, huge, nan, negative
	body      string
	bareLF    bool
	headers   []string
	truncate  int // -1 = send everything
	bodyFirst bool
}

func (r c16Req) render(key string) (raw string, cl int) {
	raw, cl, _ = r.renderFull(key)
	return
}

func (r c16Req) renderFull(key string) (raw string, cl int, fullLen int) {
	nl := "\r\n"
	if r.bareLF {
		nl = "\n"
	}
	var hs []string
	hs = append(hs, r.headers...)
	switch r.keyMode {
	case "exact":
		hs = append(hs, "x-api-key: "+key)
	case "padded":
		hs = append(hs, "x-api-key:   "+key+"  ")
	case "upper-name":
		hs = append(hs, "X-API-Key: "+key)
	case "wrong":
		hs = append(hs, "x-api-key: "+key+"x")
	case "prefix":
		hs = append(hs, "x-api-key: "+key[:len(key)-1])
	case "suffix":
		hs = append(hs, "x-api-key: "+key[1:])
	case "empty":
		hs = append(hs, "x-api-key: ")
	case "decoy":
		hs = append(hs, "xx-api-key: "+key, "x-api-key2: "+key, "x-api-ke: "+key)
	}
	cl = -1
	switch r.clMode {
	case "exact":
		cl = len(r.body)
	case "zero":
		cl = 0
	case "short":
		cl = len(r.body) / 2
	case "long":
		cl = len(r.body) + 5
	case "huge":
		cl = 1024*1024 + 1
	case "negative":
		cl = -3
	}
	switch r.clMode {
	case "absent":
	case "nan":
		hs = append(hs, "Content-Length: 1x")
	default:
		hs = append(hs, "Content-Length: "+strconv.Itoa(cl))
	}
	var sb strings.Builder
	if r.bodyFirst {
		sb.WriteString(r.body)
	}
	sb.WriteString(r.line + nl)
	for _, h := range hs {
		sb.WriteString(h + nl)
	}
	sb.WriteString(nl)
	if !r.bodyFirst {
		sb.WriteString(r.body)
	}
	raw = sb.String()
	fullLen = len(raw)
	if r.truncate >= 0 && r.truncate < len(raw) {
		raw = raw[:r.truncate]
	}
	return raw, cl, fullLen
}

func genC16Req(t *rapid.T) c16Req {
	var r c16Req
	r.method = rapid.SampledFrom([]string{"POST", "POST", "POST", "GET", "GET", "GETQ", "OTHER"}).Draw(t, "method")
	switch r.method {
	case "POST":
		r.line = rapid.SampledFrom([]string{"POST / HTTP/1.1", "POST / HTTP/1.0", "POST / HTTP/2"}).Draw(t, "line")
	case "GET":
		r.line = "GET / HTTP/1.1"
	case "GETQ":
		r.line = rapid.SampledFrom([]string{"GET /?limit=5 HTTP/1.1", "GET /?limit=0&offset=3 HTTP/1.1", "GET /?offset=100000 HTTP/1.1"}).Draw(t, "line")
	default:
		r.line = rapid.SampledFrom([]string{"PUT / HTTP/1.1", "POST /x HTTP/1.1", "GET /state HTTP/1.1", "post / HTTP/1.1", " POST / HTTP/1.1", "DELETE / HTTP/1.1", "", "POST", "GET /?LIMIT=1 HTTP/1.1", "HEAD / HTTP/1.1"}).Draw(t, "line")
	}
	r.keyMode = rapid.SampledFrom([]string{"none", "exact", "exact", "padded", "upper-name", "wrong", "prefix", "suffix", "empty", "decoy"}).Draw(t, "keyMode")
	r.clMode = rapid.SampledFrom([]string{"exact", "exact", "exact", "absent", "zero", "short", "long", "huge", "nan", "negative"}).Draw(t, "clMode")
	if r.method != "POST" && rapid.Bool().Draw(t, "noCL") {
		r.clMode = "absent"
	}
	r.body = rapid.SampledFrom(c16Bodies).Draw(t, "body")
	if r.method != "POST" && rapid.IntRange(0, 3).Draw(t, "getBody") > 0 {
		r.body = ""
	}
	r.bareLF = rapid.IntRange(0, 7).Draw(t, "bareLF") == 0
	nh := rapid.IntRange(0, 3).Draw(t, "nheaders")
	for i := 0; i < nh; i++ {
		r.headers = append(r.headers, rapid.SampledFrom([]string{"Host: localhost", "User-Agent: curl/8", "Accept: */*", "Content-Type: text/plain", "X-Long: " + strings.Repeat("v", 3000), "NoColonHeader", "Expect: 100-continue", "Content-Length-X: 5", "x-api-keys: nope"}).Draw(t, "hdr"))
	}
	r.truncate = -1
	if rapid.IntRange(0, 5).Draw(t, "truncated") == 0 {
		r.truncate = rapid.IntRange(0, 200).Draw(t, "truncAt")
	}
	r.bodyFirst = rapid.IntRange(0, 15).Draw(t, "bodyFirst") == 0
	return r
}

func chunkBytes(t *rapid.T, raw string) [][]byte {
	mode := rapid.SampledFrom([]string{"whole", "whole", "halves", "small", "bytes"}).Draw(t, "chunking")
	b := []byte(raw)
	switch mode {
	case "whole":
		return [][]byte{b}
	case "halves":
		k := len(b) / 2
		return [][]byte{b[:k], b[k:]}
	case "small":
		var out [][]byte
		for len(b) > 0 {
			n := rapid.IntRange(1, 40).Draw(t, "chunk")
			if n > len(b) {
				n = len(b)
			}
			out = append(out, b[:n])
			b = b[n:]
		}
		return out
	}
	if len(b) > 400 {
		return [][]byte{b}
	}
	var out [][]byte
	for i := range b {
		out = append(out, b[i:i+1])
	}
	return out
}

func propC16RequestGrammar(t *rapid.T) {
	key := rapid.SampledFrom([]string{"", "", "secret", "s3cr3t-key-0123456789", "k"}).Draw(t, "key")
	r := genC16Req(t)
	if key == "" {
		r.keyMode = "none"
	} else if len(key) < 2 && (r.keyMode == "prefix" || r.keyMode == "suffix") {
		r.keyMode = "wrong"
	}
	raw, cl, fullLen := r.renderFull(key)
	res := c16Serve(key, chunkBytes(t, raw))
	complete := r.truncate < 0 || r.truncate >= fullLen
	authorized := key == "" || r.keyMode == "exact" || r.keyMode == "padded" || r.keyMode == "upper-name"
	if !complete && !authorized {
		// a cut can turn a longer wrong key into the exact key: judge by the bytes actually sent
		for _, line := range strings.Split(raw, "\r\n") {
			name, val, ok := strings.Cut(line, ":")
			if ok && strings.EqualFold(name, "x-api-key") && strings.TrimSpace(val) == key {
				authorized = true
			}
		}
	}
	labels := []string{"method=" + r.method, "key=" + r.keyMode, "cl=" + r.clMode, fmt.Sprintf("complete=%v", complete), fmt.Sprintf("keyConfigured=%v", key != "")}
	nt := (key != "" && len(raw) > 20) || len(r.body) > 0
	vstat.Case("C16/grammar", key+"|"+raw, nt, labels...)
	if nt && vstat.WantSample("C16/grammar") {
		vstat.Sample("C16/grammar", map[string]interface{}{"key": key, "request": raw, "response": res.response})
	}
	desc := fmt.Sprintf("key %q, request %q", key, raw)
	if res.hung {
		t.Fatalf("%s: no answer within 20 s after the client closed", desc)
	}
	status, body, msg := httpWellFormed(res.response)
	if msg != "" {
		t.Fatalf("%s: malformed answer %q: %s", desc, res.response, msg)
	}
	// access rule
	if !authorized {
		if len(res.actions) > 0 {
			t.Fatalf("%s: action %v accepted without the exact API key", desc, res.actions[0])
		}
		if len(res.gets) > 0 || strings.Contains(res.response, "SECRET-STATE") {
			t.Fatalf("%s: state revealed without the exact API key (answer %q)", desc, res.response)
		}
		if status/100 == 2 {
			t.Fatalf("%s: answered %d without the exact API key", desc, status)
		}
	}
	// GET never delivers an action
	if r.method != "POST" && len(res.actions) > 0 {
		t.Fatalf("%s: a non-POST request delivered the action list %v", desc, res.actions[0])
	}
	if len(res.actions) > 1 {
		t.Fatalf("%s: %d action lists delivered for one request", desc, len(res.actions))
	}
	// well-formed, complete, authorized requests
	if complete && authorized && !r.bareLF && !r.bodyFirst {
		switch r.method {
		case "GET", "GETQ":
			if len(res.gets) != 1 || status != 200 || strings.TrimSuffix(body, "\n") != c16State {
				t.Fatalf("%s: a valid GET got %d %q (handler calls: %d)", desc, status, body, len(res.gets))
			}
		case "POST":
			valid := (r.clMode == "exact" || r.clMode == "short") && cl > 0
			var want []*action
			if valid {
				eff := r.body[:cl]
				acts, err := parseSingleActionList(strings.Trim(eff, "\r\n"))
				if err != nil || len(acts) == 0 {
					valid = false
				}
				want = acts
			}
			if valid {
				if status != 200 || len(res.actions) != 1 || !actionsEqual(res.actions[0], want) {
					t.Fatalf("%s: a valid POST got %d, delivered %v, expected the action list of --bind %q", desc, status, res.actions, r.body[:cl])
				}
			} else if len(res.actions) > 0 || status/100 == 2 {
				t.Fatalf("%s: an invalid POST (content-length mode %s, body %q) was accepted: %d, delivered %v", desc, r.clMode, r.body, status, res.actions)
			}
		default:
			if status/100 == 2 || len(res.gets) > 0 {
				t.Fatalf("%s: request line %q accepted with %d", desc, r.line, status)
			}
		}
	}
	if !complete && r.method == "POST" {
		// an incomplete request has no side effects unless everything needed arrived
		if len(res.actions) == 1 {
			full, _ := c16Req{method: r.method, line: r.line, keyMode: r.keyMode, clMode: r.clMode, body: r.body, bareLF: r.bareLF, headers: r.headers, truncate: -1, bodyFirst: r.bodyFirst}.render(key)
			headEnd := strings.Index(full, "\r\n\r\n")
			if headEnd < 0 || cl <= 0 || r.truncate < headEnd+4+cl {
				t.Fatalf("%s: truncated request (cut at %d of %d bytes) still delivered %v", desc, r.truncate, len(full), res.actions[0])
			}
		}
	}
}

func TestVerifC16_RequestGrammar(t *testing.T) {
	rapid.Check(t, propC16RequestGrammar)
}

func propC16ArbitraryBytes(t *rapid.T) {
	pieces := []string{"POST / HTTP/1.1\r\n", "GET / HTTP/1.1\r\n", "GET /?limit=1 HTTP", "Content-Length: ", "content-length:", "x-api-key: ", "\r\n", "\r\n\r\n", "\n", "up", "change-query(x)", "5", "2", "0", "99999999", "-1", ":", " ", "\x00", "\xff", "secret", "secre", "HTTP", "POST", "GET /"}
	key := rapid.SampledFrom([]string{"", "secret"}).Draw(t, "key")
	var sb strings.Builder
	n := rapid.IntRange(0, 14).Draw(t, "n")
	for i := 0; i < n; i++ {
		if rapid.IntRange(0, 4).Draw(t, "rawBytes") == 0 {
			sb.Write(rapid.SliceOfN(rapid.Byte(), 1, 6).Draw(t, "bytes"))
		} else {
			sb.WriteString(rapid.SampledFrom(pieces).Draw(t, "piece"))
		}
	}
	if rapid.IntRange(0, 30).Draw(t, "longLine") == 0 {
		sb.WriteString(strings.Repeat("A", 70000))
	}
	raw := sb.String()
	res := c16Serve(key, chunkBytes(t, raw))
	hasKeyHeader := c16KeyGiven(raw, "secret")
	vstat.Case("C16/bytes", key+"|"+raw, key != "" && len(raw) > 10, fmt.Sprintf("keyConfigured=%v", key != ""))
	if res.hung {
		t.Fatalf("key %q bytes %q: no answer within 20 s", key, raw)
	}
	if _, _, msg := httpWellFormed(res.response); msg != "" {
		t.Fatalf("key %q bytes %q: malformed answer %q: %s", key, raw, res.response, msg)
	}
	if key != "" && !hasKeyHeader {
		if len(res.actions) > 0 || len(res.gets) > 0 || strings.Contains(res.response, "SECRET-STATE") {
			t.Fatalf("key %q bytes %q: accepted without the key header (actions %v, gets %d)", key, raw, res.actions, len(res.gets))
		}
	}
	if !strings.HasPrefix(raw, "POST / HTTP") && len(res.actions) > 0 {
		t.Fatalf("bytes %q: action delivered for something that is not a POST request", raw)
	}
}

func TestVerifC16_ArbitraryBytes(t *testing.T) {
	rapid.Check(t, propC16ArbitraryBytes)
}

func TestVerifC16_Regress(t *testing.T) {
	// F2: GET answered before the key is checked
	res := c16Serve("secret", [][]byte{[]byte("GET / HTTP/1.1\r\nHost: x\r\n\r\n")})
	vstat.Case("C16/regress", "F2", true, "regress")
	if len(res.gets) > 0 || strings.Contains(res.response, "SECRET-STATE") {
		t.Errorf("GET without x-api-key on a server with an API key returned the state: %q", res.response)
	}
	res = c16Serve("secret", [][]byte{[]byte("GET / HTTP/1.1\r\nx-api-key: secret\r\n\r\n")})
	if len(res.gets) != 1 || !strings.Contains(res.response, "SECRET-STATE") {
		t.Errorf("GET with the exact key was not answered: %q", res.response)
	}
}

// non-local listeners need a key
func TestVerifC16_ListenAddress(t *testing.T) {
	rapid.Check(t, func(t *rapid.T) {
		host := rapid.SampledFrom([]string{"localhost", "127.0.0.1", "0.0.0.0", "192.168.1.1", "example.com", "", "::1"}).Draw(t, "host")
		port := rapid.SampledFrom([]string{"0", "65535", "65536", "-1", "abc", "", "1234"}).Draw(t, "port")
		s := host + ":" + port
		if rapid.IntRange(0, 4).Draw(t, "portOnly") == 0 {
			s = port
		}
		addr, err := parseListenAddress(s)
		vstat.Case("C16/listen-address", s, err == nil, "addr")
		if err != nil {
			return
		}
		if addr.port < 0 || addr.port > 65535 {
			t.Fatalf("listen address %q accepted with port %d", s, addr.port)
		}
		local := addr.host == "localhost" || addr.host == "127.0.0.1"
		if addr.IsLocal() != local {
			t.Fatalf("listen address %q: IsLocal=%v", s, addr.IsLocal())
		}
	})
}

// c16KeyGiven tells whether the bytes carry the key: a header line (lines end with CR LF; the last
// one may end with the request) named x-api-key whose value is the key, blanks around it ignored.
func c16KeyGiven(raw string, key string) bool {
	lines := strings.Split(raw, "\r\n")
	for _, l := range lines[1:] {
		name, value, ok := strings.Cut(l, ":")
		if ok && strings.EqualFold(name, "x-api-key") && strings.TrimSpace(value) == key {
			return true
		}
	}
	return false
}
