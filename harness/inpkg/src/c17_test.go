//go:build verif

package fzf

import (
	"fmt"
	"os"
	"reflect"
	"regexp"
	"sort"
	"strings"
	"testing"

	"github.com/junegunn/fzf/src/tui"
	"pgregory.net/rapid"
	"verif.local/vstat"
)

// C17 - any command line is either accepted as documented or rejected cleanly.

// ---------------------------------------------------------------- bind round-trip

type bindAct struct {
	name string
	typ  actionType
	arg  string
	has  bool
	form int
}

var bindOpeners = "([{<~!@#$%^&*;/|"
var bindClosers = ")]}>~!@#$%^&*;/|"

var argActions = []struct {
	n string
	t actionType
}{{"execute", actExecute}, {"execute-silent", actExecuteSilent}, {"execute-multi", actExecuteMulti}, {"change-prompt", actChangePrompt},
	{"reload", actReload}, {"reload-sync", actReloadSync}, {"change-query", actChangeQuery}, {"preview", actPreview}, {"change-preview", actChangePreview},
	{"put", actPut}, {"print", actPrint}, {"transform", actTransform}, {"transform-query", actTransformQuery}, {"transform-prompt", actTransformPrompt},
	{"become", actBecome}, {"change-header", actChangeHeader}, {"transform-header", actTransformHeader}, {"search", actSearch}, {"pos", actPosition},
	{"change-border-label", actChangeBorderLabel}, {"change-preview-label", actChangePreviewLabel}, {"change-nth", actChangeNth}, {"change-pointer", actChangePointer},
	{"change-ghost", actChangeGhost}, {"transform-search", actTransformSearch}, {"change-list-label", actChangeListLabel}, {"change-preview-window", actChangePreviewWindow}, {"change-preview-window", actChangePreviewWindow}}

var plainActions = []struct {
	n string
	t []actionType
}{{"up", []actionType{actUp}}, {"down", []actionType{actDown}}, {"accept", []actionType{actAccept}}, {"toggle-all", []actionType{actToggleAll}},
	{"kill-line", []actionType{actKillLine}}, {"first", []actionType{actFirst}}, {"toggle-down", []actionType{actToggle, actDown}}, {"abort", []actionType{actAbort}},
	{"select-all", []actionType{actSelectAll}}, {"backward-kill-word", []actionType{actBackwardKillWord}}, {"toggle-preview", []actionType{actTogglePreview}},
	{"clear-query", []actionType{actClearQuery}}, {"ignore", []actionType{actIgnore}}, {"yank", []actionType{actYank}}, {"show-preview", []actionType{actShowPreview}}, {"hide-preview", []actionType{actHidePreview}}, {"toggle-preview", []actionType{actTogglePreview}}}

var bindKeys = []struct {
	n string
	e tui.Event
}{{"ctrl-a", tui.CtrlA.AsEvent()}, {"f1", tui.F1.AsEvent()}, {"alt-x", tui.AltKey('x')}, {"enter", tui.Enter.AsEvent()}, {"x", tui.Key('x')},
	{"change", tui.Change.AsEvent()}, {"space", tui.Key(' ')}, {"ctrl-alt-b", tui.CtrlAltKey('b')}, {"tab", tui.Tab.AsEvent()}, {"load", tui.Load.AsEvent()},
	{"shift-up", tui.ShiftUp.AsEvent()}, {",", tui.Key(',')}, {":", tui.Key(':')}, {"+", tui.Key('+')}, {"é", tui.Key('é')}}

var bindArgAlpha = []rune("ab (){}[]<>~!@#$%^&*;/|+,:'\" \n-é\\")

type bindPair struct {
	key  int
	acts []bindAct
	text string
}

func genBindPair(t *rapid.T, last bool) bindPair {
	var p bindPair
	p.key = rapid.IntRange(0, len(bindKeys)-1).Draw(t, "key")
	nact := rapid.IntRange(1, 4).Draw(t, "nact")
	var strs []string
	for a := 0; a < nact; a++ {
		lastOverall := last && a == nact-1
		if rapid.Bool().Draw(t, "witharg") {
			aa := argActions[rapid.IntRange(0, len(argActions)-1).Draw(t, "aa")]
			arg := string(rapid.SliceOfN(rapid.SampledFrom(bindArgAlpha), 0, 8).Draw(t, "arg"))
			if aa.t == actChangePreviewWindow {
				// the argument of this action is validated when it is parsed
				arg = rapid.SampledFrom([]string{"up", "down", "hidden", "right,wrap", "left,border-none", "nohidden", ""}).Draw(t, "previewWindowArg")
			}
			form := rapid.IntRange(0, len(bindOpeners)).Draw(t, "form")
			if form == len(bindOpeners) && !lastOverall {
				form = rapid.IntRange(0, len(bindOpeners)-1).Draw(t, "form2")
			}
			var s string
			if form == len(bindOpeners) {
				s = aa.n + ":" + arg
			} else {
				c := string(bindClosers[form])
				// documented restriction: inside the argument the closing character is not followed by + or ,
				for strings.Contains(arg, c+"+") || strings.Contains(arg, c+",") {
					arg = strings.ReplaceAll(strings.ReplaceAll(arg, c+"+", c+"a"), c+",", c+"a")
				}
				s = aa.n + string(bindOpeners[form]) + arg + c
			}
			p.acts = append(p.acts, bindAct{aa.n, aa.t, arg, true, form})
			strs = append(strs, s)
		} else {
			pa := plainActions[rapid.IntRange(0, len(plainActions)-1).Draw(t, "pa")]
			for _, ty := range pa.t {
				p.acts = append(p.acts, bindAct{pa.n, ty, "", false, 0})
			}
			strs = append(strs, pa.n)
		}
	}
	p.text = bindKeys[p.key].n + ":" + strings.Join(strs, "+")
	return p
}

func sameActions(got []*action, want []bindAct) string {
	if len(got) != len(want) {
		return fmt.Sprintf("%d actions, expected %d", len(got), len(want))
	}
	for i := range want {
		if got[i].t != want[i].typ {
			return fmt.Sprintf("action %d is %v, expected %s", i, got[i].t, want[i].name)
		}
		if got[i].a != want[i].arg {
			return fmt.Sprintf("action %d (%s): argument %q, expected %q", i, want[i].name, got[i].a, want[i].arg)
		}
	}
	return ""
}

func propC17BindRoundTrip(t *rapid.T) {
	npairs := rapid.IntRange(1, 4).Draw(t, "npairs")
	var parts []string
	want := map[tui.Event][]bindAct{}
	used := map[int]bool{}
	var pairs []bindPair
	for p := 0; p < npairs; p++ {
		bp := genBindPair(t, p == npairs-1)
		if used[bp.key] {
			// same key again in one string: later pair replaces the earlier one
			want[bindKeys[bp.key].e] = bp.acts
		}
		used[bp.key] = true
		want[bindKeys[bp.key].e] = bp.acts
		parts = append(parts, bp.text)
		pairs = append(pairs, bp)
	}
	str := strings.Join(parts, ",")
	keymap := map[tui.Event][]*action{}
	if err := parseKeymap(keymap, str); err != nil {
		t.Fatalf("--bind %q rejected: %v", str, err)
	}
	hard := false
	nchain := 0
	for _, bp := range pairs {
		if len(bp.acts) > 1 {
			nchain++
		}
		for _, a := range bp.acts {
			if strings.ContainsAny(a.arg, "+,:()[]{}<>~!@#$%^&*;/|") {
				hard = true
			}
		}
	}
	vstat.Case("C17/bind", str, hard || nchain > 0, fmt.Sprintf("pairs=%d", npairs))
	if hard && vstat.WantSample("C17/bind") {
		vstat.Sample("C17/bind", str)
	}
	for ev, acts := range want {
		if msg := sameActions(keymap[ev], acts); msg != "" {
			t.Fatalf("--bind %q: key %v: %s", str, ev, msg)
		}
	}
	if len(keymap) != len(want) {
		t.Fatalf("--bind %q: %d keys bound, expected %d", str, len(keymap), len(want))
	}
	// what a run of fzf does with the parsed bindings before using them: the actions that change
	// the preview window go first (in their order), the others follow (in theirs) - for every key
	// on its own
	if popts, perr := ParseOptions(false, []string{"--bind", str}); perr == nil {
		if err := postProcessOptions(popts); err == nil {
			for ev, acts := range want {
				var first, rest []bindAct
				for _, a := range acts {
					switch a.typ {
					case actTogglePreview, actShowPreview, actHidePreview, actChangePreviewWindow:
						first = append(first, a)
					default:
						rest = append(rest, a)
					}
				}
				if msg := sameActions(popts.Keymap[ev], append(first, rest...)); msg != "" {
					t.Fatalf("--bind %q after post-processing: key %v: %s", str, ev, msg)
				}
			}
		}
	}
	// the same AST through every delimiter form gives the same keymap
	form := rapid.IntRange(0, len(bindOpeners)-1).Draw(t, "reform")
	var parts2 []string
	okForm := true
	for _, bp := range pairs {
		var strs []string
		for i := 0; i < len(bp.acts); i++ {
			a := bp.acts[i]
			if !a.has {
				if a.name == "toggle-down" {
					i++
				}
				strs = append(strs, a.name)
				continue
			}
			c := string(bindClosers[form])
			if strings.Contains(a.arg, c+"+") || strings.Contains(a.arg, c+",") {
				okForm = false
			}
			strs = append(strs, a.name+string(bindOpeners[form])+a.arg+c)
		}
		parts2 = append(parts2, bindKeys[bp.key].n+":"+strings.Join(strs, "+"))
	}
	if okForm {
		str2 := strings.Join(parts2, ",")
		km2 := map[tui.Event][]*action{}
		if err := parseKeymap(km2, str2); err != nil {
			t.Fatalf("--bind %q (same actions as %q, other delimiter form) rejected: %v", str2, str, err)
		}
		for ev, acts := range want {
			if msg := sameActions(km2[ev], acts); msg != "" {
				t.Fatalf("--bind %q (same actions as %q, other delimiter form): key %v: %s", str2, str, ev, msg)
			}
		}
	}
	// --bind K:X --bind K:+Y is --bind K:X+Y
	bp1, bp2 := genBindPair(t, true), genBindPair(t, true)
	k := bindKeys[bp1.key].n
	x := bp1.text[len(k)+1:]
	y := bp2.text[len(bindKeys[bp2.key].n)+1:]
	kmA := map[tui.Event][]*action{}
	if err := parseKeymap(kmA, k+":"+x); err != nil {
		t.Fatalf("--bind %q rejected: %v", k+":"+x, err)
	}
	if err := parseKeymap(kmA, k+":+"+y); err != nil {
		t.Fatalf("--bind %q rejected: %v", k+":+"+y, err)
	}
	if msg := sameActions(kmA[bindKeys[bp1.key].e], append(append([]bindAct{}, bp1.acts...), bp2.acts...)); msg != "" {
		t.Fatalf("--bind %q --bind %q: %s", k+":"+x, k+":+"+y, msg)
	}
}

func TestVerifC17_BindRoundTrip(t *testing.T) {
	rapid.Check(t, propC17BindRoundTrip)
}

// ---------------------------------------------------------------- totality

var optVocabulary []string

func vocabulary() []string {
	if optVocabulary == nil {
		seen := map[string]bool{}
		for _, m := range regexp.MustCompile(`--[a-z0-9][a-z0-9-]*`).FindAllString(Usage, -1) {
			seen[m] = true
		}
		for _, m := range regexp.MustCompile(`(?m)^\s+(-[a-zA-Z0-9]), `).FindAllStringSubmatch(Usage, -1) {
			seen[m[1]] = true
		}
		for _, s := range []string{"+s", "+i", "+x", "+m", "+c", "+2", "-1", "-0", "+1", "+0", "--no-sort", "--no-multi", "--no-mouse", "--no-preview", "--no-border", "--no-height", "--no-tmux", "--no-color", "--no-header", "--no-info", "--no-scrollbar", "--no-separator", "--no-unicode", "--no-bold", "--no-hscroll", "--no-input"} {
			seen[s] = true
		}
		for s := range seen {
			optVocabulary = append(optVocabulary, s)
		}
		sort.Strings(optVocabulary)
	}
	return optVocabulary
}

var optValues = []string{"", "0", "1", "10", "-1", "50%", "100%", "101%", "~10", "~50%", "abc", "..", "1,2", "2..", "-1..", "0", "a,b", "ctrl-a", "ctrl-a:up", "ctrl-a:execute(ls)+down",
	"right:50%:wrap", "up,30%,border-left", "hidden", "rounded", "none", "fg:1,bg:-1,hl:#ff0000", "dark", "16", "bw", "16,fg:1,bg:4", "dark,fg:2,hl:3", "light,bg:5,pointer:6:bold", "bw,fg:7", "file,dir,follow,hidden", "length,index", "end,chunk", "default", "path", "history",
	"v1", "v2", "reverse", "reverse-list", "inline", "inline-right", "hidden", "\t", "\\t", "[,;]+", "(", "é", "漢字", "> ", "  ", "\x1b[31m", strings.Repeat("x", 300), "1:2:3", "99999999999999999999", "3.5",
	"top", "center,50%", "border-native", "center,border-native", "border-native,bottom,40%", "localhost:0", "0.0.0.0:1234", "/nonexistent/dir", ".", "full", "minimal", "a:b:c", "::", ",", "+", "-", "--", "--x", "{}", "{1} {2}", "echo {}", "load:pos(3)", "result:transform-query:echo x",
	"change:reload:cat /dev/null", "⣿", "🙂", "\xff\xfe"}

func nonFuncFieldsEqual(a0, b0 *Options) string {
	// the argv position recorded for --height / --tmux (used only to decide which
	// of the two came later) is not part of the configuration
	ac, bc := *a0, *b0
	a, b := &ac, &bc
	a.Height.index, b.Height.index = 0, 0
	if a.Tmux != nil && b.Tmux != nil {
		ta, tb := *a.Tmux, *b.Tmux
		ta.index, tb.index = 0, 0
		a.Tmux, b.Tmux = &ta, &tb
	}
	va, vb := reflect.ValueOf(*a), reflect.ValueOf(*b)
	for i := 0; i < va.NumField(); i++ {
		f := va.Type().Field(i)
		if f.Type.Kind() == reflect.Func || f.Type.Kind() == reflect.Chan {
			if va.Field(i).IsNil() != vb.Field(i).IsNil() {
				return f.Name + " (set vs unset)"
			}
			continue
		}
		if f.Name == "History" {
			continue
		}
		if !f.IsExported() {
			// the parser's own bookkeeping (not readable through reflection from here)
			if f.Type.Kind() == reflect.Int && va.Field(i).Int() != vb.Field(i).Int() {
				return fmt.Sprintf("%s: %v vs %v", f.Name, va.Field(i).Int(), vb.Field(i).Int())
			}
			continue
		}
		if !reflect.DeepEqual(va.Field(i).Interface(), vb.Field(i).Interface()) {
			return fmt.Sprintf("%s: %v vs %v", f.Name, va.Field(i).Interface(), vb.Field(i).Interface())
		}
	}
	return ""
}

// deepString prints a value following pointers (funcs and channels only as
// set/unset), so that two snapshots can be compared even when the values share
// pointers to package-level data.
func deepString(sb *strings.Builder, v reflect.Value, depth int) {
	if depth > 12 {
		sb.WriteString("...")
		return
	}
	switch v.Kind() {
	case reflect.Ptr, reflect.Interface:
		if v.IsNil() {
			sb.WriteString("nil")
			return
		}
		sb.WriteString("&")
		deepString(sb, v.Elem(), depth+1)
	case reflect.Func, reflect.Chan:
		fmt.Fprintf(sb, "fn(%v)", !v.IsNil())
	case reflect.Struct:
		sb.WriteString("{")
		for i := 0; i < v.NumField(); i++ {
			sb.WriteString(v.Type().Field(i).Name + ":")
			deepString(sb, v.Field(i), depth+1)
			sb.WriteString(" ")
		}
		sb.WriteString("}")
	case reflect.Slice, reflect.Array:
		sb.WriteString("[")
		for i := 0; i < v.Len(); i++ {
			deepString(sb, v.Index(i), depth+1)
			sb.WriteString(" ")
		}
		sb.WriteString("]")
	case reflect.Map:
		var parts []string
		for _, k := range v.MapKeys() {
			var ks, vs strings.Builder
			deepString(&ks, k, depth+1)
			deepString(&vs, v.MapIndex(k), depth+1)
			parts = append(parts, ks.String()+"="+vs.String())
		}
		sort.Strings(parts)
		sb.WriteString("map[" + strings.Join(parts, " ") + "]")
	case reflect.String:
		fmt.Fprintf(sb, "%q", v.String())
	case reflect.Bool:
		fmt.Fprintf(sb, "%v", v.Bool())
	case reflect.Int, reflect.Int8, reflect.Int16, reflect.Int32, reflect.Int64:
		fmt.Fprintf(sb, "%d", v.Int())
	case reflect.Uint, reflect.Uint8, reflect.Uint16, reflect.Uint32, reflect.Uint64, reflect.Uintptr:
		fmt.Fprintf(sb, "%d", v.Uint())
	case reflect.Float32, reflect.Float64:
		fmt.Fprintf(sb, "%g", v.Float())
	default:
		fmt.Fprintf(sb, "<%s>", v.Kind())
	}
}

// Parsing must not leave anything behind: a fixed set of probe command lines
// has to parse to the same configuration at any time in the life of the
// process as it did before the first generated command line was parsed.
var c17Probes = [][]string{{}, {"--color=16"}, {"--color=dark"}, {"--color=light"}, {"--color=bw"}, {"--color=16", "--no-bold"}, {"--style=full"}, {"--style=minimal"}, {"--style=default"},
	{"--border"}, {"--preview", "x"}, {"--bind", "ctrl-a:up"}, {"--height=50%"}, {"--tmux"}, {"--walker=file"}, {"--scheme=path"}, {"--info=inline"}}
var c17ProbeBaseline []string

func c17ProbeStrings() []string {
	out := make([]string, len(c17Probes))
	for i, argv := range c17Probes {
		opts, err, pv := safeParse(false, argv)
		var sb strings.Builder
		fmt.Fprintf(&sb, "err=%v panic=%v ", err, pv)
		if opts != nil {
			deepString(&sb, reflect.ValueOf(*opts), 0)
		}
		out[i] = sb.String()
	}
	return out
}

// c17CheckNoResidue is called at the start (baseline) and at the end of every
// generated case.
func c17CheckNoResidue(t *rapid.T, after string) {
	if c17ProbeBaseline == nil {
		c17ProbeBaseline = c17ProbeStrings()
		return
	}
	now := c17ProbeStrings()
	for i := range now {
		if now[i] != c17ProbeBaseline[i] {
			a, b := c17ProbeBaseline[i], now[i]
			k := 0
			for k < len(a) && k < len(b) && a[k] == b[k] {
				k++
			}
			lo := k - 80
			if lo < 0 {
				lo = 0
			}
			t.Fatalf("after parsing %s the command line %q parses differently than at the start of the process (state left behind by an earlier parse):\n  before: ...%.200s\n  now:    ...%.200s", after, c17Probes[i], a[lo:], b[lo:])
		}
	}
}

func safeParse(useDefaults bool, args []string) (opts *Options, err error, pv interface{}) {
	defer func() {
		if r := recover(); r != nil {
			pv = r
		}
	}()
	opts, err = ParseOptions(useDefaults, args)
	return
}

func genArgv(t *rapid.T, max int) []string {
	voc := vocabulary()
	n := rapid.IntRange(0, max).Draw(t, "nargs")
	var args []string
	for i := 0; i < n; i++ {
		switch rapid.IntRange(0, 9).Draw(t, "argKind") {
		case 0: // a bare value / garbage word
			args = append(args, rapid.SampledFrom(optValues).Draw(t, "word"))
		case 1, 2, 3: // --opt=value
			o := rapid.SampledFrom(voc).Draw(t, "opt")
			args = append(args, o+"="+rapid.SampledFrom(optValues).Draw(t, "val"))
		case 4, 5, 6: // --opt value
			o := rapid.SampledFrom(voc).Draw(t, "opt")
			args = append(args, o, rapid.SampledFrom(optValues).Draw(t, "val"))
		default:
			args = append(args, rapid.SampledFrom(voc).Draw(t, "opt"))
		}
	}
	return args
}

func propC17Totality(t *rapid.T) {
	os.Unsetenv("FZF_DEFAULT_OPTS")
	os.Unsetenv("FZF_DEFAULT_OPTS_FILE")
	if c17ProbeBaseline == nil {
		c17CheckNoResidue(t, "")
	}
	args := genArgv(t, 6)
	probe := rapid.IntRange(0, 7).Draw(t, "probe") == 0
	opts, err, pv := safeParse(false, args)
	vstat.Case("C17/totality", fmt.Sprintf("%q", args), len(args) >= 2, fmt.Sprintf("accepted=%v", err == nil))
	if pv != nil {
		t.Fatalf("ParseOptions(%q) panicked: %v", args, pv)
	}
	if (opts == nil) == (err == nil) {
		t.Fatalf("ParseOptions(%q) returned options=%v and error=%v", args, opts != nil, err)
	}
	if err != nil && strings.TrimSpace(err.Error()) == "" {
		t.Fatalf("ParseOptions(%q): empty error message", args)
	}
	// parsing is repeatable: no hidden state survives a call
	opts2, err2, pv2 := safeParse(false, args)
	if pv2 != nil || (err == nil) != (err2 == nil) {
		t.Fatalf("ParseOptions(%q) gives a different verdict the second time: %v / %v (panic %v)", args, err, err2, pv2)
	}
	if err == nil {
		if d := nonFuncFieldsEqual(opts, opts2); d != "" {
			t.Fatalf("ParseOptions(%q) gives different options the second time: %s", args, d)
		}
	}
	if probe {
		c17CheckNoResidue(t, fmt.Sprintf("%q", args))
	}
}

func TestVerifC17_Totality(t *testing.T) {
	rapid.Check(t, propC17Totality)
}

// later occurrences override earlier ones
var overridable = []struct {
	opt  string
	vals []string
}{
	{"--height", []string{"10", "50%", "~20", "100%"}}, {"--layout", []string{"default", "reverse", "reverse-list"}}, {"--prompt", []string{"> ", "$ ", ""}},
	{"--pointer", []string{">", "*", ""}}, {"--marker", []string{">", "+"}}, {"--delimiter", []string{",", ":", "[,;]+"}}, {"--nth", []string{"1", "2..", "1,3"}},
	{"--tiebreak", []string{"length", "end,index", "chunk"}}, {"--scheme", []string{"default", "path", "history"}}, {"--algo", []string{"v1", "v2"}},
	{"--multi", []string{"1", "3", "10"}}, {"--tmux", []string{"center", "bottom,40%", "left,30%", "border-native"}}, {"--info", []string{"default", "inline", "hidden", "inline-right"}}, {"--border", []string{"rounded", "sharp", "none", "double"}},
	{"--tabstop", []string{"2", "4", "8"}}, {"--query", []string{"a", "b", ""}}, {"--filter", []string{"a", "b"}}, {"--header", []string{"h1", "h2"}},
	{"--header-lines", []string{"1", "2", "0"}}, {"--tail", []string{"5", "10"}}, {"--scroll-off", []string{"0", "2", "5"}}, {"--hscroll-off", []string{"3", "10"}},
	{"--jump-labels", []string{"abc", "xyz12"}}, {"--ellipsis", []string{"..", "~"}}, {"--preview", []string{"echo {}", "cat {}", ""}}, {"--margin", []string{"1", "5%", "1,2"}},
	{"--padding", []string{"0", "2", "1,2,3,4"}}, {"--with-shell", []string{"sh -c", "bash -c"}}, {"--wrap-sign", []string{">", ">>"}}, {"--gap", []string{"1", "2"}},
	{"--color", []string{"dark", "light", "16", "bw"}}, {"--expect", []string{"ctrl-a", "f1,f2"}}, {"--walker", []string{"file", "file,dir", "dir,hidden,follow"}},
	{"--walker-skip", []string{".git", "a,b", ""}}, {"--ghost", []string{"type", "here"}}, {"--separator", []string{"-", "=="}}, {"--scrollbar", []string{"|", "x"}},
	{"--history-size", []string{"5", "50"}}, {"--print-query", nil}, {"--read0", nil}, {"--print0", nil}, {"--ansi", nil}, {"--exact", nil}, {"--cycle", nil},
	{"--track", nil}, {"--tac", nil}, {"--no-sort", nil}, {"--sync", nil}, {"--literal", nil}, {"--no-mouse", nil}, {"--keep-right", nil}, {"--wrap", nil},
	{"--select-1", nil}, {"--exit-0", nil}, {"--highlight-line", nil}, {"--no-hscroll", nil}, {"--filepath-word", nil}, {"--no-input", nil},
}

// --expect is documented to be additive, --color to be cumulative
var additive = map[string]bool{"--expect": true, "--color": true}

func TestVerifC17_LastWins(t *testing.T) {
	os.Unsetenv("FZF_DEFAULT_OPTS")
	os.Unsetenv("FZF_DEFAULT_OPTS_FILE")
	rapid.Check(t, func(t *rapid.T) {
		// background: a few unrelated options
		nbg := rapid.IntRange(0, 3).Draw(t, "nbg")
		var bg []string
		usedOpt := map[string]bool{}
		for i := 0; i < nbg; i++ {
			o := rapid.SampledFrom(overridable).Draw(t, "bgopt")
			if usedOpt[o.opt] {
				continue
			}
			usedOpt[o.opt] = true
			if o.vals == nil {
				bg = append(bg, o.opt)
			} else {
				bg = append(bg, o.opt, rapid.SampledFrom(o.vals).Draw(t, "bgval"))
			}
		}
		o := rapid.SampledFrom(overridable).Draw(t, "opt")
		if usedOpt[o.opt] || o.vals == nil || additive[o.opt] {
			return
		}
		v1 := rapid.SampledFrom(o.vals).Draw(t, "v1")
		v2 := rapid.SampledFrom(o.vals).Draw(t, "v2")
		form := func(v string, eq bool) []string {
			if eq {
				return []string{o.opt + "=" + v}
			}
			return []string{o.opt, v}
		}
		first := form(v1, rapid.Bool().Draw(t, "eq1"))
		second := form(v2, rapid.Bool().Draw(t, "eq2"))
		// A: earlier value, then background, then later value; B: only the later value
		argsA := append(append(append([]string{}, first...), bg...), second...)
		argsB := append(append([]string{}, bg...), second...)
		a, errA, pvA := safeParse(false, argsA)
		b, errB, pvB := safeParse(false, argsB)
		vstat.Case("C17/last-wins", fmt.Sprintf("%q|%q", argsA, argsB), v1 != v2, "opt="+o.opt)
		if pvA != nil || pvB != nil {
			t.Fatalf("panic: %v %v (%q / %q)", pvA, pvB, argsA, argsB)
		}
		if errB != nil {
			return // the configuration itself is rejected (e.g. incompatible background options)
		}
		if errA != nil {
			t.Fatalf("%q is accepted but %q (same with an earlier occurrence of %s) is rejected: %v", argsB, argsA, o.opt, errA)
		}
		if d := nonFuncFieldsEqual(a, b); d != "" {
			t.Fatalf("later occurrence does not override the earlier one: %q vs %q differ in %s", argsA, argsB, d)
		}
	})
}

// command-line arguments take precedence over $FZF_DEFAULT_OPTS, which takes
// precedence over $FZF_DEFAULT_OPTS_FILE: ParseOptions(true, args) with the
// environment set equals ParseOptions(false, file ++ env ++ args).
func TestVerifC17_EnvPrecedence(t *testing.T) {
	work := os.Getenv("VERIF_WORK")
	if work == "" {
		work = t.TempDir()
	}
	optsFile := work + "/c17-default-opts"
	// the history file and its size limit may come from different sources
	withHistory := append(append([]struct {
		opt  string
		vals []string
	}{}, overridable...), struct {
		opt  string
		vals []string
	}{"--history", []string{work + "/c17-hist-a", work + "/c17-hist-b"}}, struct {
		opt  string
		vals []string
	}{"--history", []string{work + "/c17-hist-a"}}, struct {
		opt  string
		vals []string
	}{"--history-size", []string{"3", "7"}}, struct {
		opt  string
		vals []string
	}{"--no-history", nil})
	os.WriteFile(work+"/c17-hist-a", []byte("q1\nq2\nq3\nq4\nq5\nq6\nq7\nq8\nq9\n"), 0o600)
	rapid.Check(t, func(t *rapid.T) {
		pick := func(label string) []string {
			n := rapid.IntRange(0, 3).Draw(t, label+"n")
			var out []string
			for i := 0; i < n; i++ {
				o := rapid.SampledFrom(withHistory).Draw(t, label+"opt")
				if o.vals == nil {
					out = append(out, o.opt)
				} else {
					v := rapid.SampledFrom(o.vals).Draw(t, label+"val")
					if v == "" || strings.ContainsAny(v, " $>{}|*;") {
						out = append(out, o.opt+"="+shellQuote(v))
					} else {
						out = append(out, o.opt+"="+v)
					}
				}
			}
			return out
		}
		unq := func(ws []string) []string {
			out := make([]string, len(ws))
			for i, w := range ws {
				out[i] = shellUnquote(w)
			}
			return out
		}
		file, env, args := pick("file"), pick("env"), pick("args")
		useFile := rapid.Bool().Draw(t, "useFile")
		os.Unsetenv("FZF_DEFAULT_OPTS_FILE")
		if useFile {
			os.WriteFile(optsFile, []byte(strings.Join(file, "\n")+"\n"), 0o644)
			os.Setenv("FZF_DEFAULT_OPTS_FILE", optsFile)
		} else {
			file = nil
		}
		os.Setenv("FZF_DEFAULT_OPTS", strings.Join(env, " "))
		got, err1, pv1 := safeParse(true, unq(args))
		os.Unsetenv("FZF_DEFAULT_OPTS")
		os.Unsetenv("FZF_DEFAULT_OPTS_FILE")
		all := append(append(unq(file), unq(env)...), unq(args)...)
		want, err2, pv2 := safeParse(false, all)
		vstat.Case("C17/env-precedence", fmt.Sprintf("%q|%q|%q", file, env, args), len(env) > 0 && len(args) > 0, fmt.Sprintf("file=%v", useFile))
		if pv1 != nil || pv2 != nil {
			t.Fatalf("panic: %v / %v", pv1, pv2)
		}
		if (err1 == nil) != (err2 == nil) {
			t.Fatalf("file %q env %q args %q: layered parse error=%v, flat parse of %q error=%v", file, env, args, err1, all, err2)
		}
		if err1 == nil {
			if d := nonFuncFieldsEqual(got, want); d != "" {
				t.Fatalf("file %q env %q args %q: layered parse differs from the flat parse of %q in %s", file, env, args, all, d)
			}
			if a, b := historySetting(got), historySetting(want); a != b {
				t.Fatalf("file %q env %q args %q: the layered parse gives %s, the flat parse of %q gives %s", file, env, args, a, all, b)
			}
			// --height and --tmux exclude each other: the one given later wins, across the sources
			if a, b := heightTmuxOrder(got), heightTmuxOrder(want); a != b {
				t.Fatalf("file %q env %q args %q: --height/--tmux given later is %q in the layered parse and %q in the flat parse of %q", file, env, args, a, b, all)
			}
		}
	})
}

func historySetting(o *Options) string {
	if o.History == nil {
		return "no history"
	}
	return fmt.Sprintf("history file %s limited to %d entries (%d loaded)", o.History.path, o.History.maxSize, len(o.History.lines))
}

// heightTmuxOrder tells which of --height / --tmux the parser recorded as the later one.
func heightTmuxOrder(o *Options) string {
	if o.Tmux == nil || o.Height.index == 0 && o.Tmux.index == 0 {
		return "n/a"
	}
	if o.Height.index > o.Tmux.index {
		return "--height"
	}
	return "--tmux"
}

func shellQuote(s string) string { return "'" + strings.ReplaceAll(s, "'", `'\''`) + "'" }

func shellUnquote(w string) string {
	i := strings.Index(w, "='")
	if i < 0 || !strings.HasSuffix(w, "'") {
		return w
	}
	return w[:i+1] + strings.ReplaceAll(w[i+2:len(w)-1], `'\''`, "'")
}

// the pure parsers behind the options: totality on hostile strings
func propC17SubParsers(t *rapid.T) {
	alpha := []rune("abcxyz0123456789 ,:;+-~!@#$%^&*()[]{}<>|/\\.'\"%é\n\t=")
	words := []string{"ctrl-", "alt-", "shift-", "up", "down", "left", "right", "top", "bottom", "hidden", "wrap", "border-", "rounded", "follow", "cycle", "fg", "bg", "hl", "#ff00", "-1", "50%", "~", "execute", "reload", "preview", "change-", "transform-", "pos", "put", "print", "become", "unbind", "rebind", "toggle-"}
	var sb strings.Builder
	n := rapid.IntRange(0, 8).Draw(t, "n")
	for i := 0; i < n; i++ {
		if rapid.Bool().Draw(t, "word") {
			sb.WriteString(rapid.SampledFrom(words).Draw(t, "w"))
		} else {
			sb.WriteString(string(rapid.SliceOfN(rapid.SampledFrom(alpha), 1, 4).Draw(t, "s")))
		}
	}
	s := sb.String()
	which := rapid.IntRange(0, 7).Draw(t, "parser")
	var pv interface{}
	func() {
		defer func() { pv = recover() }()
		switch which {
		case 0:
			parseKeymap(map[tui.Event][]*action{}, s)
		case 1:
			parseSingleActionList(s)
		case 2:
			parseKeyChords(s, "x")
		case 3:
			po := defaultPreviewOpts("")
			parsePreviewWindow(&po, s)
		case 4:
			parseTheme(tui.Dark256, s)
		case 5:
			parseTiebreak(s)
			parseHeight(s, 0)
			parseMargin("margin", s)
		case 6:
			nthTransformer(s)
			splitNth(s)
			delimiterRegexp(s)
		case 7:
			parseTmuxOptions(s, 0)
			parseWalkerOpts(s)
			parseInfoStyle(s)
			parseBorder(s, true, true)
		}
	}()
	vstat.Case("C17/sub-parsers", fmt.Sprint(which, s), len(s) > 3, fmt.Sprintf("parser=%d", which))
	if pv != nil {
		t.Fatalf("parser %d panicked on %q: %v", which, s, pv)
	}
}

func TestVerifC17_SubParsers(t *testing.T) {
	rapid.Check(t, propC17SubParsers)
}

// Broader last-wins differential over the whole option vocabulary: for an
// option given twice, the result equals giving only the later occurrence.
// Options that are documented to accumulate are excluded.
var cumulativeOpts = map[string]bool{"--bind": true, "--color": true, "--expect": true, "--preview-window": true, "--toggle-sort": true, "--tmux": true, "--height": true,
	"--history": true, "--history-size": true, "--walker-root": true, "--help": true, "--version": true, "--man": true, "--bash": true, "--zsh": true, "--fish": true}

func propC17LastWinsVocabulary(t *rapid.T) {
	os.Unsetenv("FZF_DEFAULT_OPTS")
	os.Unsetenv("FZF_DEFAULT_OPTS_FILE")
	voc := vocabulary()
	styleVals := []string{"default", "minimal", "full", "full:double", "full:sharp"}
	o := rapid.SampledFrom(voc).Draw(t, "opt")
	if cumulativeOpts[o] || !strings.HasPrefix(o, "--") {
		return
	}
	vals := optValues
	if o == "--style" {
		vals = styleVals
	}
	v1 := rapid.SampledFrom(vals).Draw(t, "v1")
	v2 := rapid.SampledFrom(vals).Draw(t, "v2")
	// a few other options in between / before, e.g. ones a preset touches
	ctx := rapid.SampledFrom([][]string{nil, nil, {"--header-border"}, {"--header-lines-border=sharp"}, {"--border=double"}, {"--info=inline"}, {"--style=full"}, {"--list-border"}, {"--input-border"}, {"--margin=1"}, {"--no-separator"}}).Draw(t, "context")
	argsB := append(append([]string{}, ctx...), o+"="+v2)
	argsA := append(append(append([]string{}, ctx...), o+"="+v1), o+"="+v2)
	b, errB, pvB := safeParse(false, argsB)
	if pvB != nil {
		t.Fatalf("ParseOptions(%q) panicked: %v", argsB, pvB)
	}
	_, err1, pv1 := safeParse(false, append(append([]string{}, ctx...), o+"="+v1))
	if pv1 != nil {
		t.Fatalf("ParseOptions(%q) panicked: %v", o+"="+v1, pv1)
	}
	if errB != nil || err1 != nil {
		return
	}
	a, errA, pvA := safeParse(false, argsA)
	vstat.Case("C17/last-wins-vocabulary", fmt.Sprintf("%q", argsA), v1 != v2, "opt="+o)
	if pvA != nil {
		t.Fatalf("ParseOptions(%q) panicked: %v", argsA, pvA)
	}
	if errA != nil {
		t.Fatalf("%q and %q are both accepted, but %q is rejected: %v", argsB, o+"="+v1, argsA, errA)
	}
	if d := nonFuncFieldsEqual(a, b); d != "" {
		t.Fatalf("later occurrence does not override the earlier one: %q vs %q differ in %s", argsA, argsB, d)
	}
}

func TestVerifC17_LastWinsVocabulary(t *testing.T) {
	rapid.Check(t, propC17LastWinsVocabulary)
}

// A rule between options (man page, --height): "adaptive height (~) cannot be used with top/bottom
// margin and padding given in percent size". Margin and padding are written in the one, two,
// three and four value forms (TRBL / TB,RL / T,RL,B / T,R,B,L); each option may be given several
// times (the last one counts) in any order. The argument list is rejected if and only if the
// height in effect is adaptive and a top or bottom margin or padding in effect is a percentage.
func TestVerifC17_AdaptiveHeightRule(t *testing.T) {
	rapid.Check(t, func(t *rapid.T) {
		type side struct {
			text    string
			percent bool
		}
		drawSides := func(label string) (string, [4]bool) {
			n := rapid.IntRange(1, 4).Draw(t, label+"Values")
			vals := make([]side, n)
			for i := range vals {
				if rapid.IntRange(0, 2).Draw(t, label+"Percent") == 0 {
					vals[i] = side{rapid.SampledFrom([]string{"5%", "10%", "1%"}).Draw(t, label+"Pct"), true}
				} else {
					vals[i] = side{rapid.SampledFrom([]string{"0", "1", "2"}).Draw(t, label+"Abs"), false}
				}
			}
			var trbl [4]bool // top, right, bottom, left
			switch n {
			case 1:
				trbl = [4]bool{vals[0].percent, vals[0].percent, vals[0].percent, vals[0].percent}
			case 2:
				trbl = [4]bool{vals[0].percent, vals[1].percent, vals[0].percent, vals[1].percent}
			case 3:
				trbl = [4]bool{vals[0].percent, vals[1].percent, vals[2].percent, vals[1].percent}
			case 4:
				trbl = [4]bool{vals[0].percent, vals[1].percent, vals[2].percent, vals[3].percent}
			}
			var texts []string
			for _, v := range vals {
				texts = append(texts, v.text)
			}
			return strings.Join(texts, ","), trbl
		}
		var args []string
		adaptive := false
		var margin, padding [4]bool
		nopts := rapid.IntRange(1, 5).Draw(t, "noptions")
		given := map[string]bool{}
		for i := 0; i < nopts; i++ {
			sep := rapid.Bool().Draw(t, "equalsForm")
			add := func(name, val string) {
				if sep {
					args = append(args, name+"="+val)
				} else {
					args = append(args, name, val)
				}
			}
			switch what := rapid.SampledFrom([]string{"height", "height", "margin", "padding", "padding", "no-height", "other"}).Draw(t, "option"); what {
			case "height":
				h := rapid.SampledFrom([]string{"~50%", "~10", "~100%", "40%", "12", "100%"}).Draw(t, "height")
				adaptive = strings.HasPrefix(h, "~")
				add("--height", h)
			case "no-height":
				adaptive = false
				args = append(args, "--no-height")
			case "margin":
				text, trbl := drawSides("margin")
				margin = trbl
				add("--margin", text)
			case "padding":
				text, trbl := drawSides("padding")
				padding = trbl
				add("--padding", text)
			case "other":
				args = append(args, rapid.SampledFrom([]string{"--border", "--reverse", "--multi", "--no-sort", "--info=inline"}).Draw(t, "otherOption"))
			}
			given[args[len(args)-1]] = true
		}
		wantErr := adaptive && (margin[0] || margin[2] || padding[0] || padding[2])
		sidesDiffer := padding[1] != padding[2] || margin[1] != margin[2] || padding[3] != padding[0] || margin[3] != margin[0]
		vstat.Case("C17/adaptive-height-rule", fmt.Sprintf("%q", args), adaptive && sidesDiffer, fmt.Sprintf("adaptive=%v", adaptive), fmt.Sprintf("rejected=%v", wantErr))
		if adaptive && sidesDiffer && vstat.WantSample("C17/adaptive-height-rule") {
			vstat.Sample("C17/adaptive-height-rule", map[string]interface{}{"args": args, "rejected": wantErr})
		}
		opts, err := ParseOptions(false, args)
		if (err != nil) != wantErr {
			what := "accepted"
			if err != nil {
				what = fmt.Sprintf("rejected (%v)", err)
			}
			t.Fatalf("fzf %q is %s; the height in effect is adaptive: %v, percent sizes in effect (top, right, bottom, left): margin %v, padding %v", args, what, adaptive, margin, padding)
		}
		if err == nil && opts == nil {
			t.Fatalf("fzf %q: no options and no error", args)
		}
	})
}

// Options whose argument is optional (--border[=STYLE], --scrollbar[=C1[C2]], --gap-line[=STR],
// --tmux[=OPTS], --color[=SPEC], --listen[=ADDR] ...): a value attached with "=" is the value of
// the option whatever it looks like - it is taken (and validated) even when it starts with "-"
// or "+", which only stops a separate word from being read as the value. Never is an attached
// value dropped silently.
func TestVerifC17_OptionalValueAttached(t *testing.T) {
	styles := map[string]bool{"rounded": true, "sharp": true, "bold": true, "block": true, "thinblock": true, "double": true, "horizontal": true, "vertical": true,
		"top": true, "bottom": true, "left": true, "right": true, "line": true, "none": true}
	borderOpts := []string{"--border", "--list-border", "--input-border", "--header-border", "--header-lines-border", "--preview-border"}
	rapid.Check(t, func(t *rapid.T) {
		kind := rapid.SampledFrom([]string{"gap-line", "gap-line", "scrollbar", "scrollbar", "border", "border", "tmux", "color", "listen"}).Draw(t, "option")
		hostile := []string{"-", "+", "--", "-x", "+x", "-+", "+-", "-rounded", "+rounded", "-1", "-50%", "+50%", "-é", "x", "ab", "é", "|", "rounded", "sharp", "top"}
		v := rapid.SampledFrom(hostile).Draw(t, "value")
		var opt string
		// other options around it: before and after
		var before, after []string
		if rapid.Bool().Draw(t, "optionBefore") {
			before = []string{rapid.SampledFrom([]string{"--multi", "--reverse", "--no-sort", "--exact"}).Draw(t, "before")}
		}
		if rapid.Bool().Draw(t, "optionAfter") {
			after = []string{rapid.SampledFrom([]string{"--multi", "--reverse", "--no-sort", "--exact", "+s", "+x"}).Draw(t, "after")}
		}
		mk := func(words ...string) []string {
			return append(append(append([]string{}, before...), words...), after...)
		}
		signed := strings.HasPrefix(v, "-") || strings.HasPrefix(v, "+")
		switch kind {
		case "gap-line":
			opt = "--gap-line"
			args := mk(opt + "=" + v)
			opts, err := ParseOptions(false, args)
			vstat.Case("C17/optional-value-attached", fmt.Sprintf("%q", args), signed, "option="+kind, fmt.Sprintf("signed=%v", signed))
			if err != nil || opts.GapLine == nil || *opts.GapLine != v {
				got := "<unset>"
				if opts != nil && opts.GapLine != nil {
					got = *opts.GapLine
				}
				t.Fatalf("fzf %q: error %v, gap line %q - the attached value is %q", args, err, got, v)
			}
		case "scrollbar":
			opt = "--scrollbar"
			args := mk(opt + "=" + v)
			opts, err := ParseOptions(false, args)
			vstat.Case("C17/optional-value-attached", fmt.Sprintf("%q", args), signed, "option="+kind, fmt.Sprintf("signed=%v", signed))
			valid := len([]rune(v)) <= 2 // every character of the value list is one column wide
			if valid != (err == nil) {
				t.Fatalf("fzf %q: error %v; a scrollbar of one or two characters is valid, a longer one is not", args, err)
			}
			if err == nil && (opts.Scrollbar == nil || *opts.Scrollbar != v) {
				got := "<unset>"
				if opts.Scrollbar != nil {
					got = *opts.Scrollbar
				}
				t.Fatalf("fzf %q: scrollbar %q - the attached value is %q", args, got, v)
			}
		default:
			switch kind {
			case "border":
				opt = rapid.SampledFrom(borderOpts).Draw(t, "borderOption")
			default:
				opt = "--" + kind
			}
			args := mk(opt + "=" + v)
			_, err := ParseOptions(false, args)
			vstat.Case("C17/optional-value-attached", fmt.Sprintf("%q", args), signed, "option="+kind, fmt.Sprintf("signed=%v", signed))
			switch {
			case kind == "border" && styles[v]:
				if err != nil && !(opt == "--preview-border" && false) {
					// not every style is allowed for every border; an error must then name the value
					if !strings.Contains(err.Error(), "border") {
						t.Fatalf("fzf %q: %v", args, err)
					}
				}
			case signed:
				// no style, tmux placement, colour specification or address starts with a sign
				// ("+N" may be read as a port number by --listen: left out)
				if v == "+50%" || kind == "listen" && strings.HasPrefix(v, "+") {
					return // "+50%" is a number with a sign: a size
				}
				if err == nil {
					t.Fatalf("fzf %q is accepted: the attached value %q is no valid argument of %s and must not be dropped", args, v, opt)
				}
			}
		}
	})
}
