//go:build verif

package fzf

import (
	"fmt"
	"os"
	"path/filepath"
	"strings"
	"testing"

	"pgregory.net/rapid"
	"verif.local/oracle"
	"verif.local/vstat"
)

// C18 - the query history file keeps the last N submitted queries in order.
// State machine over sessions: load -> (previous|next|edit)* -> optional submit.

func propC18HistorySessions(t *rapid.T) {
	work := os.Getenv("VERIF_WORK")
	if work == "" {
		work = os.TempDir()
	}
	path := filepath.Join(work, fmt.Sprintf("c18-history-%d.txt", os.Getpid()))
	os.Remove(path)
	max := rapid.IntRange(1, 5).Draw(t, "max")
	model := &oracle.HistoryModel{Max: max}
	initKind := rapid.SampledFrom([]string{"missing", "empty", "plain", "trailing-newline", "surrounded", "longer-than-limit"}).Draw(t, "init")
	entryGen := rapid.StringMatching(`[a-c ]{1,3}`)
	var content string
	exists := initKind != "missing"
	if exists {
		k := 0
		switch initKind {
		case "plain", "trailing-newline", "surrounded":
			k = rapid.IntRange(1, max).Draw(t, "k")
		case "longer-than-limit":
			k = rapid.IntRange(max+1, max+4).Draw(t, "k")
		}
		var es []string
		for i := 0; i < k; i++ {
			es = append(es, entryGen.Draw(t, "e"))
		}
		content = strings.Join(es, "\n")
		switch initKind {
		case "trailing-newline", "longer-than-limit":
			if k > 0 {
				content += "\n"
			}
		case "surrounded":
			content = "\n" + content + "\n\n"
		}
		if err := os.WriteFile(path, []byte(content), 0o600); err != nil {
			t.Fatalf("VERIF-INFRA: %v", err)
		}
	}
	model.LoadFile(content, exists)
	nsessions := rapid.IntRange(1, 4).Draw(t, "sessions")
	hitCap, revisited, submitted := false, false, 0
	trace := []string{fmt.Sprintf("init=%s max=%d file=%q", initKind, max, content)}
	for s := 0; s < nsessions; s++ {
		h, err := NewHistory(path, max)
		if err != nil {
			t.Fatalf("NewHistory: %v", err)
		}
		// a new session loads exactly the stored entries: walking back from the
		// scratch line visits them newest first and then stays on the oldest
		sess := model.NewSession()
		input := ""
		steps := rapid.IntRange(0, 12).Draw(t, "steps")
		editedAt := map[int]bool{}
		pos := len(model.Entries)
		for i := 0; i < steps; i++ {
			switch rapid.SampledFrom([]string{"edit", "prev", "prev", "next"}).Draw(t, "op") {
			case "edit":
				input = rapid.StringMatching(`[a-c]{0,3}`).Draw(t, "input")
				trace = append(trace, fmt.Sprintf("edit %q", input))
				editedAt[pos] = true
			case "prev":
				h.override(input)
				got := h.previous()
				want := sess.Previous(input)
				if pos > 0 {
					pos--
				}
				if editedAt[pos] {
					revisited = true
				}
				trace = append(trace, fmt.Sprintf("prev -> %q", got))
				if got != want {
					t.Fatalf("previous-history shows %q, expected %q\n%s", got, want, strings.Join(trace, "\n"))
				}
				input = got
			case "next":
				h.override(input)
				got := h.next()
				want := sess.Next(input)
				if pos < len(model.Entries) {
					pos++
				}
				if editedAt[pos] {
					revisited = true
				}
				trace = append(trace, fmt.Sprintf("next -> %q", got))
				if got != want {
					t.Fatalf("next-history shows %q, expected %q\n%s", got, want, strings.Join(trace, "\n"))
				}
				input = got
			}
		}
		before, _ := os.ReadFile(path)
		if rapid.Bool().Draw(t, "submit") {
			if err := h.append(input); err != nil {
				t.Fatalf("append: %v", err)
			}
			trace = append(trace, fmt.Sprintf("submit %q", input))
			if input != "" {
				if len(model.Entries) >= max {
					hitCap = true
				}
				sess.Submit(input)
				submitted++
				data, _ := os.ReadFile(path)
				if string(data) != model.FileContent() {
					t.Fatalf("history file holds %q, expected %q\n%s", data, model.FileContent(), strings.Join(trace, "\n"))
				}
			} else {
				data, _ := os.ReadFile(path)
				if string(data) != string(before) {
					t.Fatalf("submitting an empty query changed the file from %q to %q\n%s", before, data, strings.Join(trace, "\n"))
				}
			}
		} else {
			trace = append(trace, "abort")
			data, _ := os.ReadFile(path)
			if string(data) != string(before) {
				t.Fatalf("a session without submit changed the file from %q to %q\n%s", before, data, strings.Join(trace, "\n"))
			}
		}
	}
	nt := nsessions >= 2 && hitCap && revisited
	vstat.Case("C18/sessions", strings.Join(trace, "|"), nt, "init="+initKind, fmt.Sprintf("sessions=%d", nsessions), fmt.Sprintf("submitted=%d", imin(submitted, 3)))
	if nt && vstat.WantSample("C18/sessions") {
		vstat.Sample("C18/sessions", trace)
	}
}

func TestVerifC18_HistorySessions(t *testing.T) {
	rapid.Check(t, propC18HistorySessions)
}
