//go:build verif

package fzf

import (
	"fmt"
	"os"
	"path/filepath"
	"strings"
	"sync"
	"testing"

	"github.com/junegunn/fzf/src/util"
	"pgregory.net/rapid"
	"verif.local/oracle"
	"verif.local/vstat"
)

// C19 - the built-in walker lists exactly the files the walker options describe.

var c19Names = []string{"a", "b", "c", "d", ".h", ".h", ".git", ".git", ".cfg", "x y", "n\nl", "-dash", "é", "node_modules", "a.txt", "b.c", "sub", "lnk", "up"}

type c19Tree struct {
	root  *oracle.WNode
	dirs  []*oracle.WNode
	files []*oracle.WNode
	links []*oracle.WNode
	count int
}

func genTree(t *rapid.T) *c19Tree {
	tr := &c19Tree{root: &oracle.WNode{Name: "", Kind: oracle.WDir}}
	tr.dirs = append(tr.dirs, tr.root)
	var fill func(d *oracle.WNode, depth int)
	fill = func(d *oracle.WNode, depth int) {
		n := rapid.IntRange(1, 6).Draw(t, "nchildren")
		used := map[string]bool{}
		for i := 0; i < n && tr.count < 40; i++ {
			name := rapid.SampledFrom(c19Names).Draw(t, "name")
			if used[name] {
				continue
			}
			used[name] = true
			kind := rapid.SampledFrom([]int{oracle.WFile, oracle.WFile, oracle.WDir, oracle.WDir, oracle.WLink}).Draw(t, "kind")
			if kind == oracle.WDir && depth >= 4 {
				kind = oracle.WFile
			}
			c := &oracle.WNode{Name: name, Kind: kind, Parent: d}
			d.Children = append(d.Children, c)
			tr.count++
			switch kind {
			case oracle.WFile:
				tr.files = append(tr.files, c)
			case oracle.WDir:
				tr.dirs = append(tr.dirs, c)
				fill(c, depth+1)
			case oracle.WLink:
				tr.links = append(tr.links, c)
			}
		}
	}
	fill(tr.root, 1)
	// link targets: a file, a directory (sibling, child, parent = cycle, root), or dangling
	for _, l := range tr.links {
		switch rapid.SampledFrom([]string{"file", "dir", "dir", "dir", "parent", "dangling"}).Draw(t, "target") {
		case "file":
			if len(tr.files) > 0 {
				l.Target = rapid.SampledFrom(tr.files).Draw(t, "tfile")
			}
		case "dir":
			l.Target = rapid.SampledFrom(tr.dirs).Draw(t, "tdir")
		case "parent":
			l.Target = l.Parent
			if l.Parent.Parent != nil && rapid.Bool().Draw(t, "grandparent") {
				l.Target = l.Parent.Parent
			}
		}
	}
	return tr
}

func nodePath(n *oracle.WNode) []string {
	var parts []string
	for ; n != nil && n.Parent != nil; n = n.Parent {
		parts = append([]string{n.Name}, parts...)
	}
	return parts
}

func relTarget(from *oracle.WNode, to *oracle.WNode) string {
	// from: directory containing the link
	fp, tp := nodePath(from), nodePath(to)
	i := 0
	for i < len(fp) && i < len(tp) && fp[i] == tp[i] {
		i++
	}
	var parts []string
	for k := i; k < len(fp); k++ {
		parts = append(parts, "..")
	}
	parts = append(parts, tp[i:]...)
	if len(parts) == 0 {
		return "."
	}
	return strings.Join(parts, "/")
}

func materialize(base string, tr *c19Tree) error {
	var mk func(dir string, n *oracle.WNode) error
	mk = func(dir string, n *oracle.WNode) error {
		for _, c := range n.Children {
			p := filepath.Join(dir, c.Name)
			switch c.Kind {
			case oracle.WFile:
				if err := os.WriteFile(p, nil, 0o644); err != nil {
					return err
				}
			case oracle.WDir:
				if err := os.Mkdir(p, 0o755); err != nil {
					return err
				}
				if err := mk(p, c); err != nil {
					return err
				}
			case oracle.WLink:
				target := "nonexistent-target"
				if c.Target != nil {
					target = relTarget(n, c.Target)
				}
				if err := os.Symlink(target, p); err != nil {
					return err
				}
			}
		}
		return nil
	}
	return mk(base, tr.root)
}

func runWalker(roots []string, o walkerOpts, skips []string) []string {
	var mu sync.Mutex
	var got []string
	r := NewReader(func(b []byte) bool {
		mu.Lock()
		got = append(got, string(b))
		mu.Unlock()
		return true
	}, util.NewEventBox(), util.NewExecutor(""), false, false)
	r.readFiles(roots, o, skips)
	return got
}

func TestVerifC19_Walker(t *testing.T) {
	work := os.Getenv("VERIF_WORK")
	if work == "" {
		work = t.TempDir()
	}
	base := filepath.Join(work, "c19-tree")
	cwd, _ := os.Getwd()
	defer os.Chdir(cwd)
	rapid.Check(t, func(t *rapid.T) {
		os.Chdir(cwd)
		os.RemoveAll(base)
		treeDir := filepath.Join(base, "R")
		if err := os.MkdirAll(treeDir, 0o755); err != nil {
			t.Fatalf("VERIF-INFRA: %v", err)
		}
		tr := genTree(t)
		if err := materialize(treeDir, tr); err != nil {
			t.Fatalf("VERIF-INFRA: materialize: %v", err)
		}
		combos := []walkerOpts{}
		for _, f := range []bool{true, false} {
			for _, d := range []bool{true, false} {
				if !f && !d {
					continue
				}
				for _, fo := range []bool{true, false} {
					for _, h := range []bool{true, false} {
						combos = append(combos, walkerOpts{file: f, dir: d, follow: fo, hidden: h})
					}
				}
			}
		}
		wo := rapid.SampledFrom(combos).Draw(t, "opts")
		var skips []string
		ns := rapid.IntRange(0, 2).Draw(t, "nskips")
		for i := 0; i < ns; i++ {
			// mostly aim the skip entry at a directory that exists
			if len(tr.dirs) > 1 && rapid.IntRange(0, 3).Draw(t, "aimed") > 0 {
				d := rapid.SampledFrom(tr.dirs[1:]).Draw(t, "skipDir")
				parts := nodePath(d)
				switch rapid.IntRange(0, 2).Draw(t, "aimedForm") {
				case 0:
					skips = append(skips, d.Name)
				case 1:
					if len(parts) >= 2 {
						skips = append(skips, strings.Join(parts[len(parts)-2:], "/"))
					} else {
						skips = append(skips, d.Name)
					}
				default:
					if len(parts) >= 2 {
						skips = append(skips, "/"+strings.Join(parts[len(parts)-2:], "/"))
					} else {
						skips = append(skips, d.Name)
					}
				}
				continue
			}
			switch rapid.IntRange(0, 2).Draw(t, "skipForm") {
			case 0:
				skips = append(skips, rapid.SampledFrom(c19Names).Draw(t, "skipBase"))
			case 1:
				skips = append(skips, rapid.SampledFrom(c19Names).Draw(t, "s1")+"/"+rapid.SampledFrom(c19Names).Draw(t, "s2"))
			default:
				skips = append(skips, "/"+rapid.SampledFrom(c19Names).Draw(t, "s1")+"/"+rapid.SampledFrom(c19Names).Draw(t, "s2"))
			}
		}
		rootMode := rapid.SampledFrom([]string{"dot", "dot", "relative", "dotslash", "absolute", "trailing-slash", "dotslash-twice", "dotslash-dot"}).Draw(t, "root")
		var rootArg string
		switch rootMode {
		case "dot":
			os.Chdir(treeDir)
			rootArg = "."
		case "relative":
			os.Chdir(base)
			rootArg = "R"
		case "dotslash":
			os.Chdir(base)
			rootArg = "./R"
		case "trailing-slash":
			os.Chdir(base)
			rootArg = "R/"
		case "dotslash-twice": // "./$dir" with a $dir that find printed as ./R
			os.Chdir(base)
			rootArg = "././R"
		case "dotslash-dot":
			os.Chdir(treeDir)
			rootArg = "./."
		case "absolute":
			os.Chdir(cwd)
			rootArg = treeDir
		}
		got := runWalker([]string{rootArg}, wo, skips)
		os.Chdir(cwd)
		want := oracle.Walk(tr.root, rootArg, oracle.WalkOpts{File: wo.file, Dir: wo.dir, Follow: wo.follow, Hidden: wo.hidden}, skips)
		hasHiddenDir, hasDirLink, skipHit := false, false, false
		for _, d := range tr.dirs {
			if strings.HasPrefix(d.Name, ".") {
				hasHiddenDir = true
			}
			for _, s := range skips {
				if d.Name == s || strings.HasSuffix(strings.Join(nodePath(d), "/"), strings.TrimPrefix(s, "/")) && strings.Contains(s, "/") {
					skipHit = true
				}
			}
		}
		for _, l := range tr.links {
			if l.Target != nil && l.Target.Kind == oracle.WDir {
				hasDirLink = true
			}
		}
		nt := hasHiddenDir && hasDirLink && skipHit
		desc := fmt.Sprintf("walker=%+v root=%q skip=%q tree=%s", wo, rootArg, skips, describeTree(tr))
		vstat.Case("C19/walker", desc, nt, "root="+rootMode, fmt.Sprintf("follow=%v", wo.follow), fmt.Sprintf("hidden=%v", wo.hidden), fmt.Sprintf("file=%v,dir=%v", wo.file, wo.dir),
			fmt.Sprintf("hiddenDir=%v", hasHiddenDir), fmt.Sprintf("dirLink=%v", hasDirLink), fmt.Sprintf("skipHit=%v", skipHit))
		if nt && vstat.WantSample("C19/walker") {
			vstat.Sample("C19/walker", map[string]interface{}{"case": desc, "listed": len(got)})
		}
		if msg := oracle.CheckWalk(got, want); msg != "" {
			t.Fatalf("%s\n%s\nlisted:   %q\nexpected: %q\noptional: %q", desc, msg, got, want.Must, want.May)
		}
	})
}

func describeTree(tr *c19Tree) string {
	var sb strings.Builder
	var rec func(n *oracle.WNode)
	rec = func(n *oracle.WNode) {
		sb.WriteString("{")
		for i, c := range n.Children {
			if i > 0 {
				sb.WriteString(" ")
			}
			sb.WriteString(fmt.Sprintf("%q", c.Name))
			switch c.Kind {
			case oracle.WDir:
				rec(c)
			case oracle.WLink:
				if c.Target == nil {
					sb.WriteString("->?")
				} else {
					sb.WriteString("->" + fmt.Sprintf("%q", relTarget(n, c.Target)))
				}
			}
		}
		sb.WriteString("}")
	}
	rec(tr.root)
	return sb.String()
}
