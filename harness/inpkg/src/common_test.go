//go:build verif

package fzf

import (
	"fmt"
	"os"
	"regexp"
	"strings"
	"testing"

	"github.com/junegunn/fzf/src/util"
	"verif.local/oracle"
	"verif.local/vstat"
)

func TestMain(m *testing.M) {
	code := m.Run()
	vstat.Flush()
	os.Exit(code)
}

func thorough() bool { return vstat.Tier() == "thorough" }

func shard() (int, int) {
	var i, n int
	if _, err := fmt.Sscanf(os.Getenv("VERIF_SHARD"), "%d/%d", &i, &n); err != nil || n <= 0 {
		return 0, 1
	}
	return i, n
}

// delimSpec couples an fzf Delimiter (built the way the option parser builds
// it) with the oracle's model of the same delimiter.
type delimSpec struct {
	arg string // "" = AWK
	d   Delimiter
	o   oracle.Delim
}

func mkDelimSpec(arg string) delimSpec {
	if arg == "" {
		return delimSpec{"", Delimiter{}, oracle.Delim{Kind: oracle.DelimAwk}}
	}
	d := delimiterRegexp(arg)
	// The delimiter is documented as a regular expression ("\t" stands for a tab). What the model
	// takes it for is decided here, independently of the parser: a text that regular-expression
	// syntax reads literally (and a single character, and a text that is no valid expression) is a
	// plain string, everything else an expression.
	text := strings.ReplaceAll(arg, "\\t", "\t")
	re, err := regexp.Compile(text)
	if len([]rune(text)) == 1 || regexp.QuoteMeta(text) == text || err != nil {
		if d.str == nil || *d.str != text {
			panic(fmt.Sprintf("--delimiter %q is a plain string, the parser made a regular expression of it", arg))
		}
		return delimSpec{arg, d, oracle.Delim{Kind: oracle.DelimStr, Str: text}}
	}
	if d.regex == nil {
		panic(fmt.Sprintf("--delimiter %q is a regular expression, the parser took it for the plain string %q", arg, *d.str))
	}
	return delimSpec{arg, d, oracle.Delim{Kind: oracle.DelimRegex, Re: re}}
}

var delimArgs = []string{"", "", ",", ":", "::", "\\t", "[,;]+", "\\s+", ",|;", "x*", ";", "\\s", "\\d", "a\\.b", "\\W", "x\\b", "(", "\\\\"}

func vItem(s string, index int32) *Item {
	it := &Item{text: util.ToChars([]byte(s))}
	it.text.Index = index
	return it
}
