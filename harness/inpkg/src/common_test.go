//go:build verif

package fzf

import (
	"fmt"
	"os"
	"regexp"
	"testing"

	"github.com/junegunn/fzf/src/util"
	"verif.local/oracle"
	"verif.local/vstat"
)

func TestMain(m *testing.M) {
	code := m.Run()
	vstat.Flush()
	os.Exit(code)
}

func thorough() bool { return vstat.Tier() == "thorough" }

func shard() (int, int) {
	var i, n int
	if _, err := fmt.Sscanf(os.Getenv("VERIF_SHARD"), "%d/%d", &i, &n); err != nil || n <= 0 {
		return 0, 1
	}
	return i, n
}

// delimSpec couples an fzf Delimiter (built the way the option parser builds
// it) with the oracle's model of the same delimiter.
type delimSpec struct {
	arg string // "" = AWK
	d   Delimiter
	o   oracle.Delim
}

func mkDelimSpec(arg string) delimSpec {
	if arg == "" {
		return delimSpec{"", Delimiter{}, oracle.Delim{Kind: oracle.DelimAwk}}
	}
	d := delimiterRegexp(arg)
	if d.str != nil {
		return delimSpec{arg, d, oracle.Delim{Kind: oracle.DelimStr, Str: *d.str}}
	}
	return delimSpec{arg, d, oracle.Delim{Kind: oracle.DelimRegex, Re: regexp.MustCompile(arg)}}
}

var delimArgs = []string{"", "", ",", ":", "::", "\\t", "[,;]+", "\\s+", ",|;", "x*", ";"}

func vItem(s string, index int32) *Item {
	it := &Item{text: util.ToChars([]byte(s))}
	it.text.Index = index
	return it
}
