//go:build verif

package fzf

import (
	"fmt"
	"os"
	"strings"
	"testing"
	"unicode/utf8"

	"github.com/junegunn/fzf/src/tui"
	"pgregory.net/rapid"
	"verif.local/vstat"
)

// Coverage-guided variants (thorough tier): the same oracles as the rapid
// properties, driven by Go's native fuzzer. Byte-level targets feed the
// parsers directly; MakeFuzz targets let the fuzzer mutate the choice
// sequence of a rapid generator.

func FuzzVerifC11_Bytes(f *testing.F) {
	for _, s := range []string{"", "plain", "\x1b[1mfoo\x1b[mbar", "a\x08b", "\x1b]8;;http://x\x1b\\link\x1b]8;;\x1b\\", "\x1b[38;5;196mx\x1b[48;2;1;2;3my\x1b[0m",
		"\x1b[31mred\x1b[K", "\x0e\x0f\x1b(B\x1b)B", "\x1b]0;title\x07t", "é\x1b[4:3mu\x1b[24m漢", "\xc3\x1b\x1b\xa9", "\x1b[1;\x1b[m", "x\x1b[", "\x1b]8;id=1;u\x07\x1b[7mz"} {
		f.Add([]byte(s), false)
		f.Add([]byte(s), true)
	}
	f.Fuzz(func(t *testing.T, b []byte, carry bool) {
		if len(b) > 4096 {
			return
		}
		var carried *ansiState
		if carry {
			carried = &ansiState{fg: 3, bg: -1, attr: tui.Bold, lbg: -1}
		}
		if msg := c11BytesVerdict(string(b), carried); msg != "" {
			t.Fatalf("%s", msg)
		}
	})
}

func FuzzVerifC11_Grammar(f *testing.F) { f.Fuzz(rapid.MakeFuzz(propC11Grammar)) }

func FuzzVerifC16_Bytes(f *testing.F) {
	for _, s := range []string{"POST / HTTP/1.1\r\nContent-Length: 2\r\n\r\nup", "GET / HTTP/1.1\r\n\r\n", "GET /?limit=1&offset=2 HTTP/1.1\r\nx-api-key: secret\r\n\r\n",
		"POST / HTTP/1.1\r\nX-API-Key: secret\r\ncontent-length: 15\r\n\r\nchange-query(x)", "POST / HTTP/1.1\r\nContent-Length: 99999999\r\n\r\nup", "POST / HTTP/1.1\r\nContent-Length: -1\r\n\r\n",
		"PUT / HTTP/1.1\r\n\r\n", "POST /x HTTP/1.1\r\n\r\n", "\r\n\r\n", "POST / HTTP/1.1\nContent-Length: 2\n\nup"} {
		f.Add([]byte(s), false, uint16(0))
		f.Add([]byte(s), true, uint16(7))
	}
	f.Fuzz(func(t *testing.T, b []byte, withKey bool, split uint16) {
		if len(b) > 100000 {
			return
		}
		key := ""
		if withKey {
			key = "secret"
		}
		raw := string(b)
		// chunking derived from the input: whole, or cut every (split%41) bytes
		chunks := [][]byte{b}
		if n := int(split % 41); n > 0 && len(b) < 4000 {
			chunks = nil
			for rest := b; len(rest) > 0; {
				k := n
				if k > len(rest) {
					k = len(rest)
				}
				chunks = append(chunks, rest[:k])
				rest = rest[k:]
			}
		}
		res := c16Serve(key, chunks)
		vstat.Case("C16/fuzz-bytes", key+"|"+raw, key != "" && len(raw) > 10, fmt.Sprintf("keyConfigured=%v", key != ""))
		if res.hung {
			t.Fatalf("key %q bytes %q: no answer within 20 s", key, raw)
		}
		if _, _, msg := httpWellFormed(res.response); msg != "" {
			t.Fatalf("key %q bytes %q: malformed answer %q: %s", key, raw, res.response, msg)
		}
		if key != "" && !c16KeyGiven(raw, "secret") {
			if len(res.actions) > 0 || len(res.gets) > 0 || strings.Contains(res.response, "SECRET-STATE") {
				t.Fatalf("key %q bytes %q: accepted without the key header (actions %v, gets %d)", key, raw, res.actions, len(res.gets))
			}
		}
		if !strings.HasPrefix(raw, "POST / HTTP") && len(res.actions) > 0 {
			t.Fatalf("bytes %q: action delivered for something that is not a POST request", raw)
		}
	})
}

func FuzzVerifC16_Grammar(f *testing.F) { f.Fuzz(rapid.MakeFuzz(propC16RequestGrammar)) }

// Argument vectors as newline-separated text: the parser must return options
// or an error (never panic, never both/neither), and twice the same.
func FuzzVerifC17_Argv(f *testing.F) {
	os.Unsetenv("FZF_DEFAULT_OPTS")
	os.Unsetenv("FZF_DEFAULT_OPTS_FILE")
	for _, o := range vocabulary() {
		f.Add(o)
		f.Add(o + "\n1")
		f.Add(o + "=a,b")
	}
	for _, s := range []string{"--bind\nctrl-a:up+down,b:execute(echo {}),load:pos(2)", "--bind=a:change-query[x]+put(y)", "--color\nfg:#ff0000,bg:-1,hl:1:bold", "--preview-window\nup,50%,border-left,~3,+{2}+3/2,<40(down)",
		"--height=~50%\n--min-height=3+", "--nth\n1,-2..,..3\n--with-nth={1} x {2..}", "--tmux\ncenter,80%,border-native", "--walker=file,dir\n--walker-root\na\nb", "--style=full:double", "--expect\nctrl-x,alt-a,f12",
		"--margin\n1,2%,3,4", "--history-size\n0", "--tabstop\n-1", "--jump-labels\n", "--listen\n127.0.0.1:0", "--listen-unsafe=/tmp/x.sock", "--border-label-pos\n-3:bottom", "--info=inline: | ", "--scheme\npath\n--tiebreak=begin,index,chunk"} {
		f.Add(s)
	}
	f.Fuzz(func(t *testing.T, in string) {
		if len(in) > 2000 || strings.ContainsRune(in, 0) {
			return
		}
		var args []string
		if in != "" {
			args = strings.Split(in, "\n")
		}
		opts, err, pv := safeParse(false, args)
		vstat.Case("C17/fuzz-argv", in, len(args) >= 2, fmt.Sprintf("accepted=%v", err == nil))
		if pv != nil {
			t.Fatalf("ParseOptions(%q) panicked: %v", args, pv)
		}
		if (opts == nil) == (err == nil) {
			t.Fatalf("ParseOptions(%q) returned options=%v and error=%v", args, opts != nil, err)
		}
		if err != nil && strings.TrimSpace(err.Error()) == "" {
			t.Fatalf("ParseOptions(%q): empty error message", args)
		}
		opts2, err2, pv2 := safeParse(false, args)
		if pv2 != nil || (err == nil) != (err2 == nil) {
			t.Fatalf("ParseOptions(%q) gives a different verdict the second time: %v / %v (panic %v)", args, err, err2, pv2)
		}
		if err == nil {
			if d := nonFuncFieldsEqual(opts, opts2); d != "" {
				t.Fatalf("ParseOptions(%q) gives different options the second time: %s", args, d)
			}
		}
	})
}

func FuzzVerifC17_Bind(f *testing.F)       { f.Fuzz(rapid.MakeFuzz(propC17BindRoundTrip)) }
func FuzzVerifC17_SubParsers(f *testing.F) { f.Fuzz(rapid.MakeFuzz(propC17SubParsers)) }
func FuzzVerifC10_Ranges(f *testing.F)     { f.Fuzz(rapid.MakeFuzz(propC10RangesRandom)) }
func FuzzVerifC10_NthMatch(f *testing.F)   { f.Fuzz(rapid.MakeFuzz(propC10NthMatch)) }
func FuzzVerifC12_Tmux(f *testing.F)       { f.Fuzz(rapid.MakeFuzz(propC12TmuxRequote)) }
func FuzzVerifC18_History(f *testing.F)    { f.Fuzz(rapid.MakeFuzz(propC18HistorySessions)) }

// Field splitting on raw lines: partition + offsets, all delimiter kinds.
func FuzzVerifC10_Tokenize(f *testing.F) {
	for i := range delimArgs {
		for _, s := range []string{"", "a b  c", "  lead", "a,b,,c,", "é,漢;x", "a::b:c", "\ta\t\tb ", ",", "xxaxx"} {
			f.Add(s, uint8(i))
		}
	}
	specs := make([]delimSpec, len(delimArgs))
	for i, a := range delimArgs {
		specs[i] = mkDelimSpec(a)
	}
	f.Fuzz(func(t *testing.T, line string, di uint8) {
		if len(line) > 4096 || strings.ContainsAny(line, "\n\x00") || !utf8.ValidString(line) {
			return
		}
		ds := specs[int(di)%len(specs)]
		n, msg := checkTokenize(line, ds)
		vstat.Case("C10/fuzz-tokenize", line+"|"+ds.arg, n >= 3, "delim="+ds.arg)
		if msg != "" {
			t.Fatalf("line %q delimiter %q: %s", line, ds.arg, msg)
		}
	})
}
