//go:build verif

package util

import (
	"fmt"
	"os"
	"sync"
	"testing"
	"time"

	"pgregory.net/rapid"
	"verif.local/vstat"
)

func TestMain(m *testing.M) {
	code := m.Run()
	vstat.Flush()
	os.Exit(code)
}

// C13 (c) - EventBox hand-off: a consumer that waits sees, for every event
// type, the latest value set before it looked, and no watched event is lost.
func TestVerifC13_EventBox(t *testing.T) {
	rapid.Check(t, func(t *rapid.T) {
		box := NewEventBox()
		nprod := rapid.IntRange(1, 3).Draw(t, "producers")
		perProd := rapid.IntRange(1, 40).Draw(t, "perProducer")
		ntypes := rapid.IntRange(1, 3).Draw(t, "types")
		unwatched := EventType(-1)
		if rapid.Bool().Draw(t, "unwatchOne") {
			unwatched = EventType(rapid.IntRange(0, ntypes-1).Draw(t, "unwatched"))
			box.Unwatch(unwatched)
		}
		// each producer p sets values p*1000+seq on its own event type (p % ntypes); seq increases
		var wg sync.WaitGroup
		lastSet := make([]int, nprod)
		for p := 0; p < nprod; p++ {
			wg.Add(1)
			go func(p int) {
				defer wg.Done()
				for s := 1; s <= perProd; s++ {
					box.Set(EventType(p%ntypes), p*1000+s)
					lastSet[p] = s
					if s%5 == 0 {
						time.Sleep(time.Microsecond)
					}
				}
			}(p)
		}
		const quit = EventType(99)
		seen := map[int]int{} // producer -> highest seq seen
		done := make(chan struct{})
		wakeups := 0
		go func() {
			defer close(done)
			for {
				stop := false
				box.Wait(func(events *Events) {
					wakeups++
					for evt, v := range *events {
						if evt == quit {
							stop = true
							continue
						}
						n := v.(int)
						p, s := n/1000, n%1000
						if s < seen[p] {
							panic(fmt.Sprintf("producer %d: value %d delivered after %d", p, s, seen[p]))
						}
						seen[p] = s
					}
					events.Clear()
				})
				if stop {
					return
				}
			}
		}()
		wg.Wait()
		box.Set(quit, nil)
		select {
		case <-done:
		case <-time.After(10 * time.Second):
			t.Fatalf("consumer never woke up for the last event (%d producers x %d events, %d types): a watched event was lost", nprod, perProd, ntypes)
		}
		// the last value of every event type must have been delivered: producers sharing a type
		// overwrite each other, so look at the type level
		for ty := 0; ty < ntypes; ty++ {
			delivered := false
			anyProducer := false
			for p := 0; p < nprod; p++ {
				if p%ntypes != ty {
					continue
				}
				anyProducer = true
				if seen[p] == perProd {
					delivered = true
				}
			}
			if anyProducer && !delivered {
				t.Fatalf("event type %d: the final value set by its producers was never delivered (seen %v)", ty, seen)
			}
		}
		vstat.Case("C13/eventbox", fmt.Sprint(nprod, perProd, ntypes, unwatched), nprod >= 2 && perProd >= 10, fmt.Sprintf("producers=%d", nprod))
	})
}
