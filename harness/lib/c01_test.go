//go:build verif

package lib

import (
	"fmt"
	"strings"
	"testing"

	"pgregory.net/rapid"
	"verif.local/gen"
	"verif.local/oracle"
	"verif.local/vstat"
)

// C01 - filtering is exact: the lines printed by filter mode are exactly the
// lines that satisfy the query under the documented syntax.

var extraOpts = []string{"", "", "--tiebreak=end", "--tiebreak=begin", "--tiebreak=chunk,begin", "--tiebreak=pathname,length", "--tiebreak=length,index", "--no-sort", "--tac", "--tac --no-sort", "--sync"}

func c01Case(t *rapid.T) {
	o, args := gen.DrawMatchOpts(t)
	var q oracle.Query
	var qtext string
	var bodies []string
	if o.Extended {
		q = gen.Query(t, 4, false)
		qtext = gen.QueryText(t, q, o)
		bodies = gen.Bodies(q)
		if back := oracle.Parse(qtext, o.Exact); !oracle.QueryEqual(back, q) {
			t.Fatalf("generator guard: %q does not parse back to %v (got %v)", qtext, q, back)
		}
	} else {
		if rapid.IntRange(0, 9).Draw(t, "emptyRaw") == 0 {
			qtext = ""
		} else {
			qtext = string(rapid.SliceOfN(rapid.SampledFrom(gen.QueryAlphabet), 1, 5).Draw(t, "raw"))
		}
		bodies = []string{qtext}
	}
	lines := gen.Lines(t, bodies, 0, 40, 16)
	// now and then a line is very long (beyond what the optimal algorithm evaluates itself:
	// line length x term length > 100 K): what matches must not depend on that
	padded := false
	if len(lines) > 0 && rapid.IntRange(0, 11).Draw(t, "veryLongLine") == 0 {
		k := rapid.IntRange(0, len(lines)-1).Draw(t, "which")
		lines[k] += strings.Repeat("Ω", rapid.SampledFrom([]int{21000, 52000, 110000}).Draw(t, "padding"))
		padded = true
	}
	extra := rapid.SampledFrom(extraOpts).Draw(t, "extra")
	a := append([]string{"-f", qtext}, args...)
	if extra != "" {
		a = append(a, splitSpace(extra)...)
	}
	got, code := runFilter(t, a, lines)
	var want []string
	for _, l := range lines {
		var ok bool
		if o.Extended {
			ok = q.Eval(o.QueryOpts, runesOf(l))
		} else {
			ok = oracle.EvalRaw(qtext, o.QueryOpts, runesOf(l))
		}
		if ok {
			want = append(want, l)
		}
	}
	nterms := len(bodies)
	special := false
	labels := []string{}
	if o.Extended {
		labels = append(labels, "extended")
		for _, g := range q {
			if len(g) > 1 {
				labels = append(labels, "has_or")
			}
			for _, tm := range g {
				labels = append(labels, "kind="+tm.Kind.String())
				if tm.Inv {
					labels = append(labels, "has_neg")
					special = true
				}
				if tm.Kind != oracle.KindFuzzy {
					special = true
				}
				if oracle.HasNormalizable(tm.Body) {
					labels = append(labels, "accent_in_term")
				}
			}
		}
	} else {
		labels = append(labels, "no_extended")
	}
	if o.Exact {
		labels = append(labels, "exact")
	}
	if o.Literal {
		labels = append(labels, "literal")
	}
	labels = append(labels, fmt.Sprintf("case=%d", o.Case), "algo="+o.Algo, "extra="+extra)
	nt := (nterms >= 2 || special) && len(want) > 0 && len(want) < len(lines)
	key := fmt.Sprintf("%q|%v|%q", qtext, a, lines)
	if padded {
		labels = append(labels, "very_long_line")
		key = fmt.Sprintf("%q|%v|%d", qtext, a, len(key))
	}
	vstat.Case("C01/lib", key, nt, labels...)
	if nt && !padded && vstat.WantSample("C01/lib") {
		vstat.Sample("C01/lib", map[string]interface{}{"args": a, "lines": lines, "matched": want})
	}
	if d := multisetDiff(got, want); d != "" {
		short := func(ls []string) []string {
			out := make([]string, len(ls))
			for i, l := range ls {
				if rs := []rune(l); len(rs) > 200 {
					l = fmt.Sprintf("%s...(%d characters)", string(rs[:60]), len(rs))
				}
				out[i] = l
			}
			return out
		}
		t.Fatalf("query %q args %q\nlines %q\nprinted %q\nexpected %q\n%s", qtext, a, short(lines), short(got), short(want), clipTo(d, 600))
	}
	wantCode := 0
	if len(want) == 0 {
		wantCode = 1
	}
	if code != wantCode {
		t.Fatalf("query %q args %q lines %q: exit code %d, expected %d", qtext, a, lines, code, wantCode)
	}
}

func splitSpace(s string) []string {
	var out []string
	cur := ""
	for _, r := range s {
		if r == ' ' {
			if cur != "" {
				out = append(out, cur)
			}
			cur = ""
		} else {
			cur += string(r)
		}
	}
	if cur != "" {
		out = append(out, cur)
	}
	return out
}

func TestVerifC01_LibFilter(t *testing.T) {
	rapid.Check(t, c01Case)
}

func TestVerifC01_Regress(t *testing.T) {
	type rc struct {
		args  []string
		lines []string
		want  []string
	}
	for _, k := range []rc{
		{[]string{"-f", "'foo'", "--tiebreak=end"}, []string{"xxx foo bar", "xfoo"}, []string{"xxx foo bar"}}, // F9
		{[]string{"-f", "'foo'", "--scheme=path"}, []string{"xxx foo bar", "xfoo"}, []string{"xxx foo bar"}},  // F9
		{[]string{"-f", "ǆ", "-i"}, []string{"xǅy", "abc"}, []string{"xǅy"}},                                  // F5
		{[]string{"-f", "!a | b c"}, []string{"ac", "bc", "xc", "ab"}, []string{"bc", "xc"}},
	} {
		got, _ := runFilter(t, k.args, k.lines)
		vstat.Case("C01/regress", fmt.Sprint(k.args), true, "regress")
		if d := multisetDiff(got, k.want); d != "" {
			t.Errorf("args %q lines %q: printed %q, expected %q (%s)", k.args, k.lines, got, k.want, d)
		}
	}
}

func clipTo(s string, n int) string {
	if rs := []rune(s); len(rs) > n {
		return string(rs[:n]) + "..."
	}
	return s
}
