//go:build verif

package lib

import (
	"fmt"
	"sort"
	"strings"
	"testing"
	"unicode"

	"pgregory.net/rapid"
	"verif.local/gen"
	"verif.local/oracle"
	"verif.local/vstat"
)

// C04 (library level) - results are the matching lines, each once, in rank
// order: descending score, then the tiebreak criteria, then input position.
//
// The expected order is computed by an independent oracle for a class of
// queries whose score is defined by the documented model alone: 1..3 AND-ed
// positive terms of kind fuzzy/exact/prefix/suffix/equal, tiebreaks restricted
// to the criteria with an offset-free documented meaning (length, index).

func trimLen(s string) int {
	return len([]rune(strings.TrimFunc(s, unicode.IsSpace)))
}

func termScore(s oracle.Scheme, algo string, tm oracle.Term, o oracle.QueryOpts, line []rune) (int, bool) {
	pat, f := oracle.PrepareTerm(tm.Body, tm.Body, o.Case, o.Literal)
	folded := f.FoldRunes(line)
	switch tm.Kind {
	case oracle.KindFuzzy:
		if !oracle.IsSubsequence(folded, pat) {
			return 0, false
		}
		if algo == "v2" {
			_, sc, _ := oracle.FullDP(s, line, folded, pat)
			return sc, true
		}
		return 0, false // v1: direction-dependent span; not used by this oracle
	case oracle.KindEqual:
		if len(oracle.Occurrences(s, tm.Kind, line, folded, pat)) == 0 {
			return 0, false
		}
		return oracle.EqualScore(s, len(pat)), true
	case oracle.KindPrefix, oracle.KindSuffix:
		occ := oracle.Occurrences(s, tm.Kind, line, folded, pat)
		if len(occ) == 0 {
			return 0, false
		}
		sc, _ := oracle.SpanScore(s, line, folded, pat, occ[0], occ[0]+len(pat))
		return sc, true
	}
	return 0, false
}

func c04Order(t *rapid.T) {
	o, args := gen.DrawMatchOpts(t)
	o.Extended = true
	o.Algo = "v2"
	args = nil
	if o.Exact {
		args = append(args, "--exact")
	}
	switch o.Case {
	case oracle.CaseIgnore:
		args = append(args, "-i")
	case oracle.CaseRespect:
		args = append(args, "+i")
	}
	if o.Literal {
		args = append(args, "--literal")
	}
	args = append(args, "--algo=v2", "--scheme="+o.Scheme)
	nt := rapid.IntRange(1, 3).Draw(t, "nterms")
	var q oracle.Query
	kinds := []oracle.TermKind{oracle.KindFuzzy, oracle.KindFuzzy, oracle.KindFuzzy, oracle.KindPrefix, oracle.KindSuffix, oracle.KindEqual}
	for i := 0; i < nt; i++ {
		k := rapid.SampledFrom(kinds).Draw(t, "kind")
		body := string(rapid.SliceOfN(rapid.SampledFrom([]rune("abcAB1_é")), 1, 3).Draw(t, "body"))
		q = append(q, []oracle.Term{{Kind: k, Body: body}})
	}
	qtext := oracle.Render(q, o.Exact, nil)
	// a small pool of lines so that score and tiebreak collisions are the rule
	pool := gen.Lines(t, gen.Bodies(q), 1, 8, 12)
	n := rapid.SampledFrom([]int{0, 1, 5, 30, 99, 100, 101, 230, 450}).Draw(t, "n")
	lines := make([]string, n)
	for i := range lines {
		lines[i] = rapid.SampledFrom(pool).Draw(t, "pick")
	}
	tb := rapid.SampledFrom([]string{"", "length", "index", "length,index"}).Draw(t, "tiebreak")
	if tb == "" {
		// documented: --scheme=history implies --tiebreak=index, --scheme=path implies
		// --tiebreak=pathname,length (pathname needs match offsets: not modelled here)
		switch o.Scheme {
		case "history":
			tb = "index"
		case "path":
			tb = "length"
		}
	}
	if tb != "" && !(tb == "index" && o.Scheme == "history" && rapid.Bool().Draw(t, "implicitTb")) {
		args = append(args, "--tiebreak="+tb)
	}
	tac := rapid.Bool().Draw(t, "tac")
	if tac {
		args = append(args, "--tac")
	}
	if rapid.Bool().Draw(t, "sync") {
		args = append(args, "--sync")
	}
	a := append([]string{"-f", qtext}, args...)
	got, _ := runFilter(t, a, lines)

	s := oracle.SchemeOf(o.Scheme)
	type ent struct {
		line   string
		idx    int
		score  int
		length int
	}
	var want []ent
	for i, l := range lines {
		total, all := 0, true
		for _, g := range q {
			sc, ok := termScore(s, "v2", g[0], o.QueryOpts, []rune(l))
			if !ok {
				all = false
				break
			}
			total += sc
		}
		if all {
			if total > 65535 {
				total = 65535
			}
			want = append(want, ent{l, i, total, trimLen(l)})
		}
	}
	useLength := tb != "index"
	sort.SliceStable(want, func(i, j int) bool {
		a, b := want[i], want[j]
		if a.score != b.score {
			return a.score > b.score
		}
		if useLength && a.length != b.length {
			return a.length < b.length
		}
		if tac {
			return a.idx > b.idx
		}
		return a.idx < b.idx
	})
	wl := make([]string, len(want))
	ties := false
	for i, e := range want {
		wl[i] = e.line
		if i > 0 && want[i-1].score == e.score {
			ties = true
		}
	}
	vstat.Case("C04/lib-order", fmt.Sprintf("%v|%q", a, lines), len(want) >= 2 && ties,
		fmt.Sprintf("n=%d", n), "tiebreak="+tb, fmt.Sprintf("tac=%v", tac), "scheme="+o.Scheme)
	if len(want) >= 2 && ties && n > 100 && vstat.WantSample("C04/lib-order") {
		vstat.Sample("C04/lib-order", map[string]interface{}{"args": a, "pool": pool, "n": n, "matches": len(want)})
	}
	if strings.Join(got, "\n") != strings.Join(wl, "\n") || len(got) != len(wl) {
		// find first difference
		k := 0
		for k < len(got) && k < len(wl) && got[k] == wl[k] {
			k++
		}
		t.Fatalf("args %q, %d lines from pool %q: result differs from (score desc, tiebreak, index) order at rank %d: got %q want %q (got %d results, want %d)",
			a, n, pool, k, at(got, k), at(wl, k), len(got), len(wl))
	}
}

func at(s []string, i int) string {
	if i < len(s) {
		return s[i]
	}
	return "<end>"
}

func TestVerifC04_LibOrder(t *testing.T) {
	rapid.Check(t, c04Order)
}

// Input order is kept (reversed under --tac) with --no-sort, with an empty
// query and with only negated terms - for every way of running the filter.
func TestVerifC04_LibInputOrder(t *testing.T) {
	rapid.Check(t, func(t *rapid.T) {
		o, args := gen.DrawMatchOpts(t)
		if !o.Extended {
			o.Extended = true
			args = args[1:]
		}
		mode := rapid.SampledFrom([]string{"nosort", "empty", "negonly"}).Draw(t, "mode")
		var q oracle.Query
		switch mode {
		case "nosort":
			q = gen.Query(t, 2, true)
			args = append(args, "--no-sort")
		case "negonly":
			q = gen.Query(t, 2, false)
			for _, g := range q {
				for i := range g {
					g[i].Inv = true
				}
			}
		}
		qtext := oracle.Render(q, o.Exact, nil)
		pool := gen.Lines(t, gen.Bodies(q), 1, 10, 12)
		n := rapid.SampledFrom([]int{0, 1, 7, 99, 100, 101, 250, 320}).Draw(t, "n")
		lines := make([]string, n)
		for i := range lines {
			lines[i] = rapid.SampledFrom(pool).Draw(t, "pick") + fmt.Sprintf(" #%d", i)
		}
		tac := rapid.Bool().Draw(t, "tac")
		if tac {
			args = append(args, "--tac")
		}
		if rapid.Bool().Draw(t, "sync") {
			args = append(args, "--sync")
		}
		if tb := rapid.SampledFrom([]string{"", "end", "begin,length", "chunk"}).Draw(t, "tb"); tb != "" {
			args = append(args, "--tiebreak="+tb)
		}
		a := append([]string{"-f", qtext}, args...)
		got, _ := runFilter(t, a, lines)
		var want []string
		for _, l := range lines {
			if q.Eval(o.QueryOpts, runesOf(l)) {
				want = append(want, l)
			}
		}
		if tac {
			for i, j := 0, len(want)-1; i < j; i, j = i+1, j-1 {
				want[i], want[j] = want[j], want[i]
			}
		}
		vstat.Case("C04/lib-input-order", fmt.Sprintf("%v|%q", a, lines), len(want) >= 2 && n > 100, "mode="+mode, fmt.Sprintf("tac=%v", tac), fmt.Sprintf("n=%d", n))
		if strings.Join(got, "\n") != strings.Join(want, "\n") || len(got) != len(want) {
			k := 0
			for k < len(got) && k < len(want) && got[k] == want[k] {
				k++
			}
			t.Fatalf("args %q (%s), %d lines: results are not in input order%s: first difference at rank %d: got %q want %q (got %d, want %d results)",
				a, mode, n, map[bool]string{true: " reversed", false: ""}[tac], k, at(got, k), at(want, k), len(got), len(want))
		}
	})
}

func TestVerifC04_Regress(t *testing.T) {
	// F8: --no-sort must keep input order also with --tac / --sync
	var lines []string
	for i := 1; i <= 250; i++ {
		lines = append(lines, fmt.Sprint(i))
	}
	for _, extra := range [][]string{{"--tac"}, {"--sync"}, {}} {
		a := append([]string{"-f", "5", "--no-sort"}, extra...)
		got, _ := runFilter(t, a, lines)
		var want []string
		for _, l := range lines {
			if strings.Contains(l, "5") {
				want = append(want, l)
			}
		}
		if len(extra) > 0 && extra[0] == "--tac" {
			for i, j := 0, len(want)-1; i < j; i, j = i+1, j-1 {
				want[i], want[j] = want[j], want[i]
			}
		}
		vstat.Case("C04/regress", fmt.Sprint(a), true, "regress")
		if strings.Join(got, " ") != strings.Join(want, " ") {
			t.Errorf("seq 250 | fzf %q: got %q..., want input order %q...", a, got[:imin(8, len(got))], want[:8])
		}
	}
}

func imin(a, b int) int {
	if a < b {
		return a
	}
	return b
}
