//go:build verif

package lib

import (
	"fmt"
	"strings"
	"testing"

	"pgregory.net/rapid"
	"verif.local/gen"
	"verif.local/oracle"
	"verif.local/vstat"
)

var tiebreakLists = []string{"", "length", "index", "begin", "end", "chunk", "pathname", "length,begin", "end,length", "chunk,length", "pathname,end", "begin,index", "chunk,pathname,length"}

// Relation 5: filtering a sub-list yields the full result restricted to the
// sub-list, in the same relative order. Lines are made distinct by a suffix
// so that the restriction is well defined.
func TestVerifC05_LibSublist(t *testing.T) {
	rapid.Check(t, func(t *rapid.T) {
		o, args := gen.DrawMatchOpts(t)
		var qtext string
		var q oracle.Query
		if o.Extended {
			q = gen.Query(t, 3, true)
			qtext = gen.QueryText(t, q, o)
		} else {
			qtext = string(rapid.SliceOfN(rapid.SampledFrom([]rune("abAB1_ ")), 0, 4).Draw(t, "raw"))
		}
		bodies := gen.Bodies(q)
		if !o.Extended {
			bodies = []string{qtext}
		}
		pool := gen.Lines(t, bodies, 1, 10, 14)
		n := rapid.SampledFrom([]int{2, 5, 20, 100, 101, 260}).Draw(t, "n")
		lines := make([]string, n)
		for i := range lines {
			lines[i] = rapid.SampledFrom(pool).Draw(t, "pick")
		}
		// distinct lines: the same text may occur twice only with different tags
		tagged := make([]string, n)
		for i, l := range lines {
			tagged[i] = fmt.Sprintf("%s\x1f%d", l, i)
		}
		// NB: the tag must not change matching: use --nth 1 with the unit separator as delimiter
		args = append(args, "--delimiter", "\x1f", "--nth", "1")
		if tb := rapid.SampledFrom(tiebreakLists).Draw(t, "tiebreak"); tb != "" {
			args = append(args, "--tiebreak="+tb)
		}
		if rapid.IntRange(0, 3).Draw(t, "tac") == 0 {
			args = append(args, "--tac")
		}
		if rapid.IntRange(0, 5).Draw(t, "nosort") == 0 {
			args = append(args, "--no-sort")
		}
		a := append([]string{"-f", qtext}, args...)
		full, _ := runFilter(t, a, tagged)
		mask := rapid.SliceOfN(rapid.Bool(), n, n).Draw(t, "mask")
		var sub []string
		in := map[string]bool{}
		for i, keep := range mask {
			if keep {
				sub = append(sub, tagged[i])
				in[tagged[i]] = true
			}
		}
		part, _ := runFilter(t, a, sub)
		var restricted []string
		for _, l := range full {
			if in[l] {
				restricted = append(restricted, l)
			}
		}
		nt := len(restricted) >= 2 && len(restricted) < len(full)
		vstat.Case("C05/lib-sublist", fmt.Sprintf("%v|%q|%v", a, lines, mask), nt, fmt.Sprintf("n=%d", n))
		if nt && vstat.WantSample("C05/lib-sublist") {
			vstat.Sample("C05/lib-sublist", map[string]interface{}{"args": a, "n": n, "kept": len(sub), "full_matches": len(full), "sub_matches": len(part)})
		}
		if strings.Join(part, "\n") != strings.Join(restricted, "\n") {
			k := 0
			for k < len(part) && k < len(restricted) && part[k] == restricted[k] {
				k++
			}
			t.Fatalf("args %q: filtering the sub-list differs from the full result restricted to it at rank %d: sub-list run gives %q, full run gives %q\nfull input %q\nmask %v",
				a, k, at(part, k), at(restricted, k), tagged, mask)
		}
	})
}

// Relation 6: the result of a run does not depend on the options of the runs
// that preceded it in the same process.
func TestVerifC05_LibRunHistory(t *testing.T) {
	rapid.Check(t, func(t *rapid.T) {
		mk := func(label string) (string, []string) {
			o, args := gen.DrawMatchOpts(t)
			q := gen.Query(t, 2, true)
			qtext := oracle.Render(q, o.Exact, nil)
			if !o.Extended {
				qtext = "ab"
			}
			if tb := rapid.SampledFrom(tiebreakLists).Draw(t, label+"tb"); tb != "" {
				args = append(args, "--tiebreak="+tb)
			}
			return qtext, args
		}
		q1, a1 := mk("first")
		q2, a2 := mk("second")
		lines := gen.Lines(t, []string{"ab", "a b", "x/ab", "a,b"}, 2, 30, 14)
		lines = append(lines, "ab", "x ab", "x/ab", "x,ab", "a-b")
		run := func(q string, a []string) []string {
			out, _ := runFilter(t, append([]string{"-f", q}, a...), lines)
			return out
		}
		// second configuration alone (after a neutral run), then after the first configuration
		run("zzz", []string{"--scheme=default"})
		alone := run(q2, a2)
		run(q1, a1)
		after := run(q2, a2)
		vstat.Case("C05/lib-run-history", fmt.Sprintf("%q %v | %q %v | %q", q1, a1, q2, a2, lines), len(alone) >= 2, "runs")
		if strings.Join(alone, "\n") != strings.Join(after, "\n") {
			t.Fatalf("run (%q %q) gives %q after a neutral run but %q after a run with (%q %q); lines %q", q2, a2, alone, after, q1, a1, lines)
		}
	})
}
