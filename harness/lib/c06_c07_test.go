//go:build verif

package lib

import (
	"fmt"
	"strings"
	"testing"

	"pgregory.net/rapid"
	"verif.local/gen"
	"verif.local/oracle"
	"verif.local/vstat"
)

// how the filter is run: the options below select the different code paths
// (streaming, sorted, reversed, synchronous) that must all agree.
var runModes = [][]string{{}, {"--no-sort"}, {"--no-sort", "--tac"}, {"--no-sort", "--sync"}, {"--tac"}, {"--sync"}}

// C06 (library level): --header-lines=N diverts the first N records, --tail=N
// keeps exactly the last N searchable, whatever the way the filter is run.
func TestVerifC06_LibHeaderTail(t *testing.T) {
	rapid.Check(t, func(t *rapid.T) {
		n := rapid.SampledFrom([]int{0, 1, 2, 5, 30, 99, 100, 101, 199, 200, 201, 350}).Draw(t, "n")
		lines := make([]string, n)
		for i := range lines {
			lines[i] = fmt.Sprintf("%s%d%s", rapid.SampledFrom([]string{"a", "b", "ab ", " x", "", "é", "\uFFFD", "漢\uFFFDa"}).Draw(t, "w"), i, rapid.SampledFrom([]string{"", "", "", "  ", "\t"}).Draw(t, "trailing"))
		}
		header := rapid.SampledFrom([]int{0, 0, 1, 2, 5, 100, 101}).Draw(t, "header")
		tail := rapid.SampledFrom([]int{0, 0, 1, 2, 3, 50, 99, 100, 101, 150, 200, 400}).Draw(t, "tail")
		query := rapid.SampledFrom([]string{"", "", "a", "1", "!a", "b | 1"}).Draw(t, "query")
		mode := rapid.SampledFrom(runModes).Draw(t, "mode")
		a := []string{"-f", query}
		if header > 0 {
			a = append(a, fmt.Sprintf("--header-lines=%d", header))
		}
		if tail > 0 {
			a = append(a, fmt.Sprintf("--tail=%d", tail))
		}
		// a display transformation that shows the whole line must not change what an item is
		if wn := rapid.SampledFrom([]string{"", "", "..", "1..", "1"}).Draw(t, "withNth"); wn != "" {
			a = append(a, "--with-nth", wn)
			if wn == "1" {
				a = append(a, "--delimiter", "\x01") // no line contains it: the first field is the whole line
			}
		}
		a = append(a, mode...)
		got, _ := runFilter(t, a, lines)
		// model
		searchable := lines
		if header > 0 {
			if header >= len(searchable) {
				searchable = nil
			} else {
				searchable = searchable[header:]
			}
		}
		if tail > 0 && len(searchable) > tail {
			searchable = searchable[len(searchable)-tail:]
		}
		q := oracle.Parse(query, false)
		var want []string
		for _, l := range searchable {
			if q.Eval(oracle.QueryOpts{Extended: true}, runesOf(l)) {
				want = append(want, l)
			}
		}
		nt := (header > 0 || tail > 0) && len(want) > 0 && n > tail
		vstat.Case("C06/lib-header-tail", fmt.Sprint(a, n), nt, fmt.Sprintf("header=%d", header), fmt.Sprintf("tail=%d", tail), "mode="+strings.Join(mode, " "))
		if nt && vstat.WantSample("C06/lib-header-tail") {
			vstat.Sample("C06/lib-header-tail", map[string]interface{}{"args": a, "n": n, "expected_results": len(want)})
		}
		if d := multisetDiff(got, want); d != "" {
			t.Fatalf("%d lines, args %q: searchable set is wrong: %s (got %d results, want %d)", n, a, d, len(got), len(want))
		}
	})
}

// C07 (library level): every printed item is the original line, even when the
// display/search text was transformed by --with-nth; --print-query comes first.
func TestVerifC07_LibOriginalLine(t *testing.T) {
	rapid.Check(t, func(t *rapid.T) {
		delim := rapid.SampledFrom([]string{"", ",", ":", "\t", "[,;]+"}).Draw(t, "delim")
		d := oracle.Delim{Kind: oracle.DelimAwk}
		alpha := []rune("abcAB  ,;:\t1_é\uFFFD漢")
		nlines := rapid.IntRange(0, 30).Draw(t, "nlines")
		lines := make([]string, nlines)
		for i := range lines {
			lines[i] = string(rapid.SliceOfN(rapid.SampledFrom(alpha), 0, 16).Draw(t, "line"))
		}
		nr := rapid.IntRange(1, 2).Draw(t, "nranges")
		var ranges []oracle.FieldRange
		var rs []string
		for i := 0; i < nr; i++ {
			r, ok := oracle.ParseFieldRange(rapid.SampledFrom([]string{"1", "2", "3", "-1", "-2", "2..", "..2", "2..3", "..", "-2..", "..-2"}).Draw(t, "range"))
			if !ok {
				t.Fatalf("generator: bad range")
			}
			ranges = append(ranges, r)
			rs = append(rs, r.String())
		}
		a := []string{"--with-nth", strings.Join(rs, ",")}
		if delim != "" {
			a = append(a, "--delimiter", delim)
			d = mkDelim(delim)
		}
		term := string(rapid.SliceOfN(rapid.SampledFrom([]rune("abc1")), 0, 2).Draw(t, "term"))
		query := term
		if term != "" && rapid.Bool().Draw(t, "exactTerm") {
			query = "'" + term
		}
		printQuery := rapid.Bool().Draw(t, "printQuery")
		if printQuery {
			a = append(a, "--print-query")
		}
		mode := rapid.SampledFrom(runModes).Draw(t, "mode")
		a = append(append([]string{"-f", query}, a...), mode...)
		got, code := runFilter(t, a, lines)
		q := oracle.Parse(query, false)
		var want []string
		transformedDiffers := false
		for _, l := range lines {
			disp := oracle.WithNth(l, d, ranges)
			if disp != l {
				transformedDiffers = true
			}
			if q.Eval(oracle.QueryOpts{Extended: true}, runesOf(disp)) {
				want = append(want, l)
			}
		}
		nt := transformedDiffers && len(want) > 0
		vstat.Case("C07/lib-original-line", fmt.Sprintf("%q|%q", a, lines), nt, "delim="+delim, "mode="+strings.Join(mode, " "), fmt.Sprintf("printQuery=%v", printQuery))
		if nt && vstat.WantSample("C07/lib-original-line") {
			vstat.Sample("C07/lib-original-line", map[string]interface{}{"args": a, "lines": lines, "expected": want})
		}
		if printQuery {
			if len(got) == 0 || got[0] != query {
				t.Fatalf("args %q: --print-query: first output %q is not the query %q", a, at(got, 0), query)
			}
			got = got[1:]
		}
		if d := multisetDiff(got, want); d != "" {
			t.Fatalf("args %q lines %q: printed %q, expected the original lines %q: %s", a, lines, got, want, d)
		}
		wantCode := 1
		if len(want) > 0 {
			wantCode = 0
		}
		if code != wantCode {
			t.Fatalf("args %q lines %q: exit code %d, expected %d", a, lines, code, wantCode)
		}
	})
}

func mkDelim(s string) oracle.Delim {
	if len([]rune(s)) == 1 {
		return oracle.Delim{Kind: oracle.DelimStr, Str: s}
	}
	return oracle.Delim{Kind: oracle.DelimRegex, Re: mustRe(s)}
}

func TestVerifC0607_Regress(t *testing.T) {
	// F1: streaming filter printed the transformed text
	got, _ := runFilter(t, []string{"-f", "b", "--with-nth", "2", "--no-sort"}, []string{"a b"})
	vstat.Case("C07/regress", "F1", true, "regress")
	if len(got) != 1 || got[0] != "a b" {
		t.Errorf("printf 'a b' | fzf --with-nth 2 -f b +s: printed %q, expected the original line \"a b\"", got)
	}
	// F7: --tail ignored by the streaming filter
	got, _ = runFilter(t, []string{"-f", "", "--tail", "2", "--no-sort"}, []string{"1", "2", "3", "4", "5"})
	vstat.Case("C06/regress", "F7", true, "regress")
	if strings.Join(got, ",") != "4,5" {
		t.Errorf("seq 5 | fzf -f '' --tail 2 +s: printed %q, expected [4 5]", got)
	}
	_ = gen.LineAlphabet
}
