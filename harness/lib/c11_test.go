//go:build verif

package lib

import (
	"fmt"
	"strings"
	"testing"

	"pgregory.net/rapid"
	"verif.local/oracle"
	"verif.local/vstat"
)

// C11 through the filter pipeline: with --ansi the searched and the printed
// text of a line is the line without its control sequences, whatever way the
// filter is run (streaming, sorted, reversed, synchronous) and whether or not
// the sequences produce colours.
func TestVerifC11_LibPrinted(t *testing.T) {
	seqs := []string{"\x1b[31m", "\x1b[1;44m", "\x1b[m", "\x1b[0m", "\x1b[K", "\x1b[2J", "\x1b(B", "\x0e", "\x0f", "q\x08", "\x1b]0;title\x07", "\x1b]8;;http://x/~y\x1b\\", "\x1b]8;;\x1b\\", "\x1b[38;5;200m", "\x1b[39;49m", "\x1bM"}
	words := []string{"alpha", "beta", "a-b", "ab1", "é-a", "zzz", " ", "1", "xay"}
	rapid.Check(t, func(t *rapid.T) {
		nlines := rapid.IntRange(1, 12).Draw(t, "nlines")
		lines := make([]string, nlines)
		uncoloured := false
		for i := range lines {
			var sb strings.Builder
			colour := false
			for k := rapid.IntRange(0, 6).Draw(t, "npieces"); k > 0; k-- {
				if rapid.Bool().Draw(t, "isSeq") {
					s := rapid.SampledFrom(seqs).Draw(t, "seq")
					if strings.HasSuffix(s, "m") && s != "\x1b[m" && s != "\x1b[0m" {
						colour = true
					}
					sb.WriteString(s)
				} else {
					sb.WriteString(rapid.SampledFrom(words).Draw(t, "word"))
				}
			}
			lines[i] = sb.String()
			if !colour && oracle.HasControl(lines[i]) {
				uncoloured = true
			}
		}
		query := rapid.SampledFrom([]string{"", "", "a", "ab", "'a-", "1", "!zzz"}).Draw(t, "query")
		a := []string{"--ansi", "-f", query}
		a = append(a, rapid.SampledFrom(runModes).Draw(t, "mode")...)
		if rapid.IntRange(0, 3).Draw(t, "noColor") == 0 {
			a = append(a, "--no-color")
		}
		got, _ := runFilter(t, a, lines)
		q := oracle.Parse(query, false)
		var want []string
		for _, l := range lines {
			stripped := oracle.StripAnsi(l)
			if q.Eval(oracle.QueryOpts{Extended: true}, runesOf(stripped)) {
				want = append(want, stripped)
			}
		}
		nt := uncoloured && len(want) > 0
		vstat.Case("C11/lib-printed", fmt.Sprintf("%q|%q", a, lines), nt, "mode="+strings.Join(a[3:], " "))
		if nt && vstat.WantSample("C11/lib-printed") {
			vstat.Sample("C11/lib-printed", map[string]interface{}{"args": a, "lines": fmt.Sprintf("%q", lines), "printed": fmt.Sprintf("%q", got)})
		}
		if d := multisetDiff(got, want); d != "" {
			t.Fatalf("args %q lines %q: printed %q, expected the lines without their control sequences %q: %s", a, lines, got, want, d)
		}
	})
}
