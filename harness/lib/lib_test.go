//go:build verif

package lib

import (
	"fmt"
	"os"
	"regexp"
	"strings"
	"testing"

	fzf "github.com/junegunn/fzf/src"
	"verif.local/vstat"
)

func TestMain(m *testing.M) {
	code := m.Run()
	vstat.Flush()
	os.Exit(code)
}

func thorough() bool { return vstat.Tier() == "thorough" }

type failer interface {
	Fatalf(format string, args ...any)
}

// runFilter runs the whole filter pipeline in-process through the exported
// API: fzf.ParseOptions + fzf.Run with Input/Output channels.
func runFilter(t failer, args []string, lines []string) (out []string, code int) {
	opts, err := fzf.ParseOptions(false, args)
	if err != nil {
		t.Fatalf("ParseOptions(%q): %v", args, err)
	}
	in := make(chan string)
	outc := make(chan string)
	opts.Input = in
	opts.Output = outc
	go func() {
		for _, l := range lines {
			in <- l
		}
		close(in)
	}()
	done := make(chan struct{})
	go func() {
		for s := range outc {
			out = append(out, s)
		}
		close(done)
	}()
	code, err = fzf.Run(opts)
	close(outc)
	<-done
	if err != nil {
		t.Fatalf("Run(%q): %v", args, err)
	}
	return out, code
}

func multisetDiff(got, want []string) string {
	m := map[string]int{}
	for _, s := range want {
		m[s]++
	}
	for _, s := range got {
		m[s]--
	}
	var missing, extra []string
	for s, n := range m {
		for ; n > 0; n-- {
			missing = append(missing, s)
		}
		for ; n < 0; n++ {
			extra = append(extra, s)
		}
	}
	if len(missing) == 0 && len(extra) == 0 {
		return ""
	}
	return fmt.Sprintf("dropped %q, invented %q", missing, extra)
}

func runesOf(s string) [][]rune { return [][]rune{[]rune(s)} }

func joinArgs(a []string) string { return strings.Join(a, " ") }

func mustRe(s string) *regexp.Regexp { return regexp.MustCompile(s) }
