# Texts for MANIFEST.json (see tools/gen_manifest.py)

HOOKS = {
    'guard': 'verif',
    'enable': 'go build/test -tags verif; the in-package harness files are injected with -overlay (nothing is written to /repo)',
    'baseline_off_cmd': 'cd /repo && go test -vet=off -count=1 ./...',
    'source_commits': ['d54ebd1'],
    'add_only': True,
}

ENGINES = [
    {'name': 'rapid-inpkg', 'path': 'harness/inpkg', 'kind_free_text': 'pgregory.net/rapid v1.3.0 property tests compiled into the fzf packages through go test -overlay/-modfile (unexported functions reachable, /repo untouched)',
     'serves_properties': ['C01', 'C02', 'C03', 'C04', 'C05', 'C06', 'C08', 'C10', 'C11', 'C12', 'C13', 'C16', 'C17', 'C18', 'C19']},
    {'name': 'rapid-lib', 'path': 'harness/lib', 'kind_free_text': 'rapid property tests on the exported fzf.ParseOptions + fzf.Run API (whole filter pipeline in-process)',
     'serves_properties': ['C01', 'C04', 'C05', 'C06', 'C07', 'C11']},
    {'name': 'rapid-proc', 'path': 'harness/proc', 'kind_free_text': 'rapid state machines driving the real fzf binary in a private tmux server through --listen, send-keys and resize',
     'serves_properties': ['C02', 'C06', 'C07', 'C08', 'C09', 'C10', 'C11', 'C12', 'C13', 'C14', 'C15', 'C16', 'C17', 'C18', 'C19', 'C20']},
    {'name': 'go-fuzz', 'path': 'harness/inpkg', 'kind_free_text': 'native go test -fuzz targets (thorough tier only) compiled into the fzf packages with coverage instrumentation: byte-level targets with the oracle inside (ANSI stripping, HTTP request handling, option parsing, field splitting) and rapid.MakeFuzz wrappers of the rapid properties',
     'serves_properties': ['C02', 'C03', 'C05', 'C10', 'C11', 'C12', 'C16', 'C17', 'C18']},
    {'name': 'oracle', 'path': 'harness/oracle', 'kind_free_text': 'independent reference models (no fzf import): scoring DP, alignment enumerator, query grammar evaluator, record/field splitters, ANSI/SGR interpreter, readline/selection model, history model, walk model',
     'serves_properties': []},
    {'name': 'driver', 'path': 'check', 'kind_free_text': 'python3 driver: rebuilds harnesses from the current /repo tree, shards rapid runs over 16 cores, merges measured case statistics into evidence/<id>.json, maps failures to VIOLATION / KNOWN-FINDING / inconclusive',
     'serves_properties': []},
]

NOTES = ('All checks: ./check <ID> with VERIF_TIER / VERIF_SEED. Exit 0 held, 1 violation (VIOLATION line), 2 inconclusive (infrastructure). '
         'Known findings and repaired defects: KNOWN_FINDINGS.txt. Sensitivity patches (written by independent sub-agents, confirmed here): seeded/. Design: DESIGN.md.')

FUZZ_NOTE = '; thorough tier adds coverage-guided native Go fuzzing (go test -fuzz, byte-level targets and rapid.MakeFuzz wrappers) of the same oracles'
FUZZ_IDS = ['C02', 'C03', 'C05', 'C10', 'C11', 'C12', 'C16', 'C17', 'C18']

NOT_YET = {}

META = {}

META['C02'] = dict(
    engine='rapid-inpkg',
    design_ref='DESIGN.md section 4, C02',
    technique='property-based testing (rapid): generated (matcher, term, line, direction, slab, representation) cases against a witness-validity predicate and an exhaustive witness search; the same predicate on ranges and positions reported through --nth scopes; generated start-up queries of 300-4000 characters against the real binary (found, drawn, alive)',
    level_text='Exploration: hundreds of thousands (quick) to millions (thorough) of generated calls of all seven matchers, each checked in both directions '
               '(reported match => valid witness; reported non-match => the oracle finds no witness). No absence claim beyond the explored cases.',
    level_note='Trusts the independent oracle in harness/oracle (subsequence / occurrence search, case+accent folding with a snapshot of the accent table), '
               'the Go runtime for panic detection, and that real callers prepare patterns as pattern.go does.')

META['C03'] = dict(
    engine='rapid-inpkg',
    design_ref='DESIGN.md section 4, C03',
    technique='exhaustive enumeration of short strings over a class-complete alphabet + rapid random cases, differential against an unoptimised full-matrix DP and an explicit-alignment enumerator',
    level_text='Exploration with an exhaustively enumerated sub-domain: every line of length <=5 (quick) / <=6 (thorough) over 7 symbols x 39 patterns x 2 directions x 3 schemes, '
               'plus random longer / non-ASCII lines; score equality with the reference recurrence, upper bound by the best explicit alignment.',
    level_note='Trusts the re-statement of the documented recurrence in harness/oracle/score.go (validated against the unchanged tree: zero disagreements after the F3/F11 repairs). '
               'The alignment bound for V2 evaluates the recurrence (including its clip at zero) along one alignment; equal-match terms are compared with the closed formula in the source.')

META['C05'] = dict(
    engine='rapid-inpkg',
    design_ref='DESIGN.md section 4, C05',
    technique='property-based metamorphic testing (rapid): slab history / representation / withPos / call-sequence / scheme-history equalities',
    level_text='Exploration: generated metamorphic pairs; every inequality is a violation except the one listed known finding (V2 start offset without positions), recognised by an exact classifier.',
    level_note='Trusts only equality of results between two executions of the code under test; scheme-history relation additionally trusts the reference scorer.')

META['C01'] = dict(
    engine='rapid-lib',
    design_ref='DESIGN.md section 4, C01',
    technique='property-based testing (rapid) with a reference model: query AST generator + independent evaluator of the documented search grammar, set equality both ways against fzf.Run filter mode',
    level_text='Exploration: tens of thousands (quick) to ~1M (thorough) generated (query, options, list) cases through the real filter pipeline; printed multiset must equal the oracle\'s match set.',
    level_note='Trusts harness/oracle (grammar parser/evaluator, folding, predicates per term kind); the generator only emits queries whose reading is documented (guarded by a parse-back check).')

META['C04'] = dict(
    engine='rapid-lib',
    design_ref='DESIGN.md section 4, C04',
    technique='property-based testing (rapid) against a reference ranking: independent documented score + tiebreak keys, stable global sort; input-order oracle for --no-sort / empty / negation-only queries; generated query / toggle-sort histories through the matcher loop with its per-query lists',
    level_text='Exploration: generated lists with forced score/tiebreak collisions across 0, 1 and several chunks, all filter code paths (streaming, sorted, --tac, --sync).',
    level_note='Library-level order oracle covers positive fuzzy(v2)/prefix/suffix/equal terms with tiebreaks length/index; other criteria via in-package merger check and the C05 sub-list relation.')

META['C06'] = dict(
    engine='rapid-lib',
    design_ref='DESIGN.md section 4, C06',
    technique='property-based testing (rapid) against a record-splitter / header / tail model',
    level_text='Exploration: generated streams, read schedules and header/tail settings; every record must become exactly one item in order.',
    level_note='Trusts the splitter model in harness/oracle and that input sources behave like *os.File (n>0,nil)*(0,EOF).')

META['C07'] = dict(
    engine='rapid-lib',
    design_ref='DESIGN.md section 4, C07',
    technique='property-based testing (rapid): byte-exact expected output from a field/ANSI model + exit-status table',
    level_text='Exploration: generated lines and framing option combinations through the filter pipeline (library) and the real binary (process level).',
    level_note='Trusts the field model and ANSI model in harness/oracle.')

META['C10'] = dict(
    engine='rapid-inpkg',
    design_ref='DESIGN.md section 4, C10',
    technique='exhaustive small table + property-based testing (rapid) against a field/range reference model; positions checked against the full line; rapid state machine over change-nth / transform-nth sequences on the real binary with the match set compared to the model after every step',
    level_text='Exploration with an exhaustively enumerated sub-domain (all range spellings with bounds in -4..4 x 0..5 fields x 3 delimiter kinds) plus random lines, range lists and --nth queries.',
    level_note='Trusts harness/oracle/fields.go; adopts the observed convention for trailing empty fields (literal vs regex delimiter) where the documentation is silent.')

META['C11'] = dict(
    engine='rapid-inpkg',
    design_ref='DESIGN.md section 4, C11',
    technique='property-based testing (rapid): arbitrary bytes against the specification regex + span well-formedness; grammar-generated SGR/OSC-8 streams against an SGR interpreter model',
    level_text='Exploration: hundreds of thousands to millions of byte strings and grammar streams (1-3 lines with carried state); stripping equality, per-character style equality, span well-formedness.',
    level_note='Trusts the regular expression quoted in src/ansi.go as the specification of what is removed and the SGR interpreter in harness/oracle/ansi.go; one known finding (invalid UTF-8 recombination) is excluded by an exact classifier.')

META['C12'] = dict(
    engine='rapid-inpkg',
    design_ref='DESIGN.md section 4, C12',
    technique='property-based round-trip testing (rapid) through the real /bin/sh (dash) and bash: expansion -> shell -> argv compared with the expected words, canary file for injected commands; the real tmux re-launch code with stand-ins for tmux and fzf (argument vector and environment as /bin/sh evaluates the generated script)',
    level_text='Exploration: thousands (quick) to ~100k (thorough) templates x hostile item/query texts, each evaluated by two real shells.',
    level_note='Trusts dash and bash as the POSIX-shell oracles; fish is modelled, not run.')

META['C17'] = dict(
    engine='rapid-inpkg',
    design_ref='DESIGN.md section 4, C17',
    technique='property-based testing (rapid): grammar-generated bind strings (round-trip against the AST), generated argument vectors (totality, last-wins, env/file layering differential), documented rules between options and attached optional values against a model',
    level_text='Exploration: generated bind ASTs through 17 delimiter forms, generated argv over the scraped option vocabulary; exit status/stderr of rejected vectors is checked at process level.',
    level_note='Trusts the key-name -> event table for the 15 keys used and the documented restriction on closing delimiters inside arguments.')

META['C18'] = dict(
    engine='rapid-inpkg',
    design_ref='DESIGN.md section 4, C18',
    technique='stateful property-based testing (rapid state machine over sessions) against a history-file reference model',
    level_text='Exploration: tens of thousands of multi-session histories on a real file, every previous/next result and every file content compared with the model.',
    level_note='Sessions are driven through the History type exactly in the order the terminal uses it (override, previous/next, append); the process-level check drives the real binary.')

META['C16'] = dict(
    engine='rapid-inpkg',
    design_ref='DESIGN.md section 4, C16',
    technique='property-based testing (rapid): HTTP request grammar + byte soups with generated framing against a well-formedness predicate, an authorisation rule and a POST-body == --bind parse differential',
    level_text='Exploration: tens of thousands (quick) to ~1M (thorough) requests delivered to the request handler in generated chunkings with early close; live-endpoint sessions at process level.',
    level_note='Handler level uses net.Pipe and a fake action channel / state handler; trusts the well-formedness predicate in the harness.')

META['C08'] = dict(
    engine='rapid-inpkg',
    design_ref='DESIGN.md section 4, C08',
    technique='stateful property-based testing (rapid): cache state machine and Matcher.Loop request histories (with hook-driven cancellation points) against a sequential cache-less filter; process-level sessions against fzf --filter',
    level_text='Exploration: thousands of related-query sequences on a shared cache, thousands of push/Reset histories on the real matcher loop, live sessions at process level; differential against a fresh filter.',
    level_note='Timing inside the Go scheduler is sampled; cancellation points are chosen through the verif hook; quiescence is polled with a generous cap.')

META['C13'] = dict(
    engine='rapid-inpkg',
    design_ref='DESIGN.md section 4, C13',
    technique='property-based concurrency stress (rapid) + bounded exhaustive enumeration of cancellation points through the verif hook; Go race detector as an additional monitor in the thorough tier',
    level_text='Exploration with an exhaustively enumerated sub-domain (every cancellation point for lists of up to 6/12 chunks x 3 partition counts x 8 query pairs); loader/searcher interleavings are sampled.',
    level_note='Interleavings inside the Go scheduler are sampled, not enumerated; the race detector only sees executed interleavings.')

META['C19'] = dict(
    engine='rapid-inpkg',
    design_ref='DESIGN.md section 4, C19',
    technique='property-based testing (rapid): generated directory-tree ASTs materialised on disk, walker output (in-package, interactive sessions and --filter fed by the walker) compared as multisets with a walk model over the AST',
    level_text='Exploration: thousands of generated trees x all 12 walker option combinations x skip lists x root spellings.',
    level_note='Trusts harness/oracle/walk.go; three under-specified listings are accepted either way (see assumptions in the evidence).')

META['C09'] = dict(
    engine='rapid-proc',
    design_ref='DESIGN.md section 4, C09',
    technique='stateful model-based testing (rapid state machine) of the live binary under tmux through --listen: readline / list-cursor / selection reference model compared with GET state after every step',
    level_text='Exploration: ~1000 (quick) to ~16000 (thorough) live sessions of 5-40 steps over generated lists, geometries, layouts and --multi limits; final stdout and exit status checked.',
    level_note='Trusts the model in harness/oracle/editor.go and the result lists of fzf --filter (C08); tmux 3.3a as the terminal.')

META['C14'] = dict(
    engine='rapid-proc',
    design_ref='DESIGN.md section 4, C14',
    technique='property-based robustness testing (rapid) of the live binary under tmux: generated option sets, window sizes, action/key/mouse/resize histories and exit moments against liveness and terminal/tmp/process hygiene predicates',
    level_text='Exploration: hundreds (quick) to thousands (thorough) of live sessions; after every step fzf must answer, at exit stty settings, private terminal modes, alternate screen, mouse modes, TMPDIR and the process table must be clean.',
    level_note='tmux 3.3a is the terminal emulator; timing of exits relative to running child commands is varied, not controlled; SIGINT is repeated because fzf leaves it to a running execute/transform command by design.')

META['C15'] = dict(
    engine='rapid-proc',
    design_ref='DESIGN.md section 4, C15',
    technique='property-based testing (rapid) of the live binary: the pane captured through tmux is parsed and compared with the GET state after every step of generated histories (screen-vs-state relation)',
    level_text='Exploration: hundreds (quick) to thousands (thorough) of live sessions over lists, geometries, layouts, info styles, headers and action histories; exact comparison for printable ASCII lines.',
    level_note='tmux capture-pane is the observation of what is drawn; ASCII pointer/marker/ellipsis and --no-hscroll/--no-scrollbar/--color=bw are configured so that rows can be parsed; header rows are located, not positioned.')

META['C20'] = dict(
    engine='rapid-proc',
    design_ref='DESIGN.md section 4, C20',
    technique='stateful property-based testing (rapid) of the live binary with an instrumented preview command: invocation log + process table + captured pane against the expansion for the focused line at quiescence',
    level_text='Exploration: live sessions with instant / slow / never-ending / incremental preview commands and action histories with generated gaps and bursts; checked at quiescence points and after exit.',
    level_note='Timing relative to process start-up is varied, not controlled; quiescence = a state that stops changing; liveness cap 40 s.')

for _id in FUZZ_IDS:
    META[_id]['technique'] += FUZZ_NOTE
