package oracle

import (
	"fmt"
	"regexp"
	"strings"
	"unicode/utf8"
)

// AnsiRe is the specification of what --ansi removes: the regular expression
// quoted in the source comment of ansi.go ("equivalent to calling
// FindStringIndex() on the below regex"), extended with the one documented
// exception: the hyperlink terminator that fzf itself emits, ESC ] 8 ; ; ESC.
var AnsiRe = regexp.MustCompile("(?:\x1b[\\\\\\[()][0-9;:?]*[a-zA-Z@]|\x1b\\][0-9]+[;:][[:print:]]+(?:\x1b\\\\|\x07)|\x1b\\]8;;\x1b|\x1b.|[\x0e\x0f]|.\x08)")

// StripAnsi removes the control sequences, scanning the way a stream filter
// does: find the next sequence in the rest of the string, drop it, go on.
func StripAnsi(s string) string {
	var sb strings.Builder
	for len(s) > 0 {
		loc := AnsiRe.FindStringIndex(s)
		if loc == nil {
			break
		}
		sb.WriteString(s[:loc[0]])
		s = s[loc[1]:]
	}
	sb.WriteString(s)
	return sb.String()
}

func HasControl(s string) bool {
	return strings.ContainsAny(s, "\x1b\x08\x0e\x0f")
}

// ---------------------------------------------------------------- SGR model

const (
	ABold = 1 << iota
	ADim
	AItalic
	AUnderline
	ABlink
	AReverse
	AStrike
)

// CellStyle is what a terminal shows for one character.
type CellStyle struct {
	Fg, Bg int // -1 default; 0..255 palette; 1<<24|rgb true colour
	Attr   int
	URL    string // "" = no hyperlink
	Params string
}

func DefaultStyle() CellStyle { return CellStyle{Fg: -1, Bg: -1} }

func (c CellStyle) String() string {
	return fmt.Sprintf("{fg:%d bg:%d attr:%b url:%q/%q}", c.Fg, c.Bg, c.Attr, c.URL, c.Params)
}

// PieceKind enumerates what the grammar generator emits.
type PieceKind int

const (
	PText     PieceKind = iota // plain characters (no control characters)
	PSGR                       // ESC [ codes m
	POSC8Open                  // ESC ] 8 ; params ; uri ST
	POSC8Close                 // ESC ] 8 ; ; ST
	POther                     // any other sequence that --ansi removes and that changes no colour
)

type Piece struct {
	Kind   PieceKind
	Text   string // PText: the characters; others: the rendered bytes
	Codes  []int  // PSGR: parameters (sub-parameters of 38/48 included, in order)
	URL    string
	Params string
}

// ApplySGR applies the parameters of one well-formed SGR sequence.
func ApplySGR(st CellStyle, codes []int) CellStyle {
	if len(codes) == 0 {
		st.Fg, st.Bg, st.Attr = -1, -1, 0
		return st
	}
	for i := 0; i < len(codes); i++ {
		c := codes[i]
		switch {
		case c == 0:
			st.Fg, st.Bg, st.Attr = -1, -1, 0
		case c == 1:
			st.Attr |= ABold
		case c == 2:
			st.Attr |= ADim
		case c == 3:
			st.Attr |= AItalic
		case c == 4:
			st.Attr |= AUnderline
		case c == 5:
			st.Attr |= ABlink
		case c == 7:
			st.Attr |= AReverse
		case c == 9:
			st.Attr |= AStrike
		case c == 22:
			st.Attr &^= ABold | ADim
		case c == 23:
			st.Attr &^= AItalic
		case c == 24:
			st.Attr &^= AUnderline
		case c == 25:
			st.Attr &^= ABlink
		case c == 27:
			st.Attr &^= AReverse
		case c == 29:
			st.Attr &^= AStrike
		case c >= 30 && c <= 37:
			st.Fg = c - 30
		case c == 39:
			st.Fg = -1
		case c >= 40 && c <= 47:
			st.Bg = c - 40
		case c == 49:
			st.Bg = -1
		case c >= 90 && c <= 97:
			st.Fg = c - 90 + 8
		case c >= 100 && c <= 107:
			st.Bg = c - 100 + 8
		case c == 38 || c == 48:
			var col int
			if i+2 < len(codes) && codes[i+1] == 5 {
				col = codes[i+2]
				i += 2
			} else if i+4 < len(codes) && codes[i+1] == 2 {
				col = 1<<24 | codes[i+2]<<16 | codes[i+3]<<8 | codes[i+4]
				i += 4
			} else {
				continue
			}
			if c == 38 {
				st.Fg = col
			} else {
				st.Bg = col
			}
		}
	}
	return st
}

// RenderPieces gives the byte string of the pieces.
func RenderPieces(pieces []Piece) string {
	var sb strings.Builder
	for _, p := range pieces {
		sb.WriteString(p.Text)
	}
	return sb.String()
}

// InterpretPieces returns the visible text, the style of each of its
// characters and the style in force at the end of the line.
func InterpretPieces(pieces []Piece, carried CellStyle) (text string, styles []CellStyle, end CellStyle) {
	st := carried
	var sb strings.Builder
	for _, p := range pieces {
		switch p.Kind {
		case PText:
			sb.WriteString(p.Text)
			for i := 0; i < utf8.RuneCountInString(p.Text); i++ {
				styles = append(styles, st)
			}
		case PSGR:
			st = ApplySGR(st, p.Codes)
		case POSC8Open:
			st.URL, st.Params = p.URL, p.Params
		case POSC8Close:
			st.URL, st.Params = "", ""
		}
	}
	return sb.String(), styles, st
}
