package oracle

import "unicode"

// Editor is a readline-style line editor: rune buffer, cursor, kill buffer.
type Editor struct {
	Buf      []rune
	Cx       int
	Yank     []rune
	FileWord bool // --filepath-word: words are delimited by the path separator
}

func (e *Editor) String() string { return string(e.Buf) }

func (e *Editor) isWord(r rune) bool {
	if e.FileWord {
		return r != '/'
	}
	return unicode.IsLetter(r) || unicode.IsNumber(r)
}

func cp(rs []rune) []rune { return append([]rune{}, rs...) }

func (e *Editor) insert(s []rune) {
	nb := append(cp(e.Buf[:e.Cx]), s...)
	e.Buf = append(nb, e.Buf[e.Cx:]...)
	e.Cx += len(s)
}

// wordStartLeft: skip non-word characters to the left, then the word.
func (e *Editor) wordStartLeft(isWord func(rune) bool) int {
	i := e.Cx
	for i > 0 && !isWord(e.Buf[i-1]) {
		i--
	}
	for i > 0 && isWord(e.Buf[i-1]) {
		i--
	}
	return i
}

// wordEndRight: skip non-word characters to the right, then the word.
func (e *Editor) wordEndRight() int {
	i := e.Cx
	n := len(e.Buf)
	for i < n && !e.isWord(e.Buf[i]) {
		i++
	}
	for i < n && e.isWord(e.Buf[i]) {
		i++
	}
	return i
}

// Apply performs one editing action; arg is used by put / change-query.
// It returns false for actions the model does not know.
func (e *Editor) Apply(action string, arg string) bool {
	switch action {
	case "put":
		e.insert([]rune(arg))
	case "change-query":
		e.Buf = []rune(arg)
		e.Cx = len(e.Buf)
	case "backward-char":
		if e.Cx > 0 {
			e.Cx--
		}
	case "forward-char":
		if e.Cx < len(e.Buf) {
			e.Cx++
		}
	case "beginning-of-line":
		e.Cx = 0
	case "end-of-line":
		e.Cx = len(e.Buf)
	case "backward-word":
		e.Cx = e.wordStartLeft(e.isWord)
	case "forward-word":
		e.Cx = e.wordEndRight()
	case "backward-delete-char":
		if e.Cx > 0 {
			e.Buf = append(cp(e.Buf[:e.Cx-1]), e.Buf[e.Cx:]...)
			e.Cx--
		}
	case "delete-char":
		if e.Cx < len(e.Buf) {
			e.Buf = append(cp(e.Buf[:e.Cx]), e.Buf[e.Cx+1:]...)
		}
	case "backward-kill-word":
		if e.Cx > 0 {
			n := e.wordStartLeft(e.isWord)
			e.Yank = cp(e.Buf[n:e.Cx])
			e.Buf = append(cp(e.Buf[:n]), e.Buf[e.Cx:]...)
			e.Cx = n
		}
	case "unix-word-rubout":
		if e.Cx > 0 {
			n := e.wordStartLeft(func(r rune) bool { return !unicode.IsSpace(r) })
			e.Yank = cp(e.Buf[n:e.Cx])
			e.Buf = append(cp(e.Buf[:n]), e.Buf[e.Cx:]...)
			e.Cx = n
		}
	case "kill-word":
		n := e.wordEndRight()
		if n > e.Cx {
			e.Yank = cp(e.Buf[e.Cx:n])
			e.Buf = append(cp(e.Buf[:e.Cx]), e.Buf[n:]...)
		}
	case "kill-line":
		if e.Cx < len(e.Buf) {
			e.Yank = cp(e.Buf[e.Cx:])
			e.Buf = cp(e.Buf[:e.Cx])
		}
	case "unix-line-discard":
		if e.Cx > 0 {
			e.Yank = cp(e.Buf[:e.Cx])
			e.Buf = cp(e.Buf[e.Cx:])
			e.Cx = 0
		}
	case "yank":
		e.insert(e.Yank)
	case "clear-query":
		e.Buf = nil
		e.Cx = 0
	default:
		return false
	}
	return true
}

// ---------------------------------------------------------------- list cursor

// ListCursor models the position of the pointer in the result list
// (0 = best match).
type ListCursor struct {
	Cy      int
	Reverse bool // --layout=reverse or reverse-list: "up" moves towards index 0
	Cycle   bool
}

func clamp(v, lo, hi int) int {
	if v > hi {
		v = hi
	}
	if v < lo {
		v = lo
	}
	return v
}

// Move applies up (+1) / down (-1) with the layout's direction.
func (c *ListCursor) Move(visualUp bool, count int) {
	o := -1
	if visualUp {
		o = 1
	}
	if c.Reverse {
		o = -o
	}
	dest := c.Cy + o
	max := count - 1
	if c.Cycle {
		if dest > max {
			if c.Cy == max {
				dest = 0
			}
		} else if dest < 0 {
			if c.Cy == 0 {
				dest = max
			}
		}
	}
	c.Cy = clamp(dest, 0, maxInt(max, 0))
}

func maxInt(a, b int) int {
	if a > b {
		return a
	}
	return b
}

// Page applies page-up/down, half-page-up/down. maxItems is the number of
// list rows on screen.
func (c *ListCursor) Page(up bool, half bool, maxItems int, count int) {
	lines := maxItems - 1
	if half {
		lines = maxItems / 2
	}
	if lines < 1 {
		lines = 1
	}
	dir := -1
	if up {
		dir = 1
	}
	if c.Reverse {
		dir = -dir
	}
	c.Cy = clamp(c.Cy+dir*lines, 0, maxInt(count-1, 0))
}

func (c *ListCursor) Set(pos int, count int) { c.Cy = clamp(pos, 0, maxInt(count-1, 0)) }

// Pos implements pos(N): 1-based from the top, negative from the bottom.
func (c *ListCursor) Pos(n int, count int) {
	if n > 0 {
		n--
	} else if n < 0 {
		n += count
	}
	c.Set(n, count)
}

// ---------------------------------------------------------------- selection

// Selection keeps the selected item indices in selection order. Items selected
// by one -all action form a batch whose internal order is not asserted.
type Selection struct {
	Limit   int // 0 = no --multi
	Batches [][]int
}

func (s *Selection) Count() int {
	n := 0
	for _, b := range s.Batches {
		n += len(b)
	}
	return n
}

func (s *Selection) Has(idx int) bool {
	for _, b := range s.Batches {
		for _, x := range b {
			if x == idx {
				return true
			}
		}
	}
	return false
}

func (s *Selection) remove(idx int) {
	for bi, b := range s.Batches {
		for i, x := range b {
			if x == idx {
				s.Batches[bi] = append(append([]int{}, b[:i]...), b[i+1:]...)
				return
			}
		}
	}
}

func (s *Selection) compact() {
	var out [][]int
	for _, b := range s.Batches {
		if len(b) > 0 {
			out = append(out, b)
		}
	}
	s.Batches = out
}

// Select adds one item (own batch); false when the limit is reached.
func (s *Selection) Select(idx int) bool {
	if s.Limit == 0 {
		return false
	}
	if s.Count() >= s.Limit {
		return false
	}
	if s.Has(idx) {
		return true
	}
	s.Batches = append(s.Batches, []int{idx})
	return true
}

func (s *Selection) Deselect(idx int) {
	s.remove(idx)
	s.compact()
}

// Toggle returns false when nothing could be done (limit reached).
func (s *Selection) Toggle(idx int) bool {
	if s.Limit == 0 {
		return false
	}
	if s.Has(idx) {
		s.Deselect(idx)
		return true
	}
	return s.Select(idx)
}

// SelectAll selects the given results in order until the limit is reached.
func (s *Selection) SelectAll(results []int) {
	if s.Limit == 0 {
		return
	}
	var batch []int
	for _, r := range results {
		if s.Count()+len(batch) >= s.Limit {
			// the limit test comes before the "already selected" test
			break
		}
		if s.Has(r) {
			continue
		}
		batch = append(batch, r)
	}
	if len(batch) > 0 {
		s.Batches = append(s.Batches, batch)
	}
}

func (s *Selection) DeselectAll(results []int) {
	if s.Limit == 0 {
		return
	}
	for _, r := range results {
		s.remove(r)
	}
	s.compact()
}

// ToggleAll inverts the selection within the current results.
func (s *Selection) ToggleAll(results []int) {
	if s.Limit == 0 {
		return
	}
	was := map[int]bool{}
	for _, r := range results {
		if s.Has(r) {
			was[r] = true
			s.remove(r)
		}
	}
	s.compact()
	var batch []int
	for _, r := range results {
		if was[r] {
			continue
		}
		if s.Count()+len(batch) >= s.Limit {
			break
		}
		batch = append(batch, r)
	}
	if len(batch) > 0 {
		s.Batches = append(s.Batches, batch)
	}
}

func (s *Selection) Clear() { s.Batches = nil }

// Matches tells whether an observed selection list (in selection order) is
// compatible with the model: batches in order, any order inside a batch.
func (s *Selection) Matches(got []int) bool {
	if len(got) != s.Count() {
		return false
	}
	k := 0
	for _, b := range s.Batches {
		want := map[int]int{}
		for _, x := range b {
			want[x]++
		}
		for i := 0; i < len(b); i++ {
			want[got[k]]--
			k++
		}
		for _, v := range want {
			if v != 0 {
				return false
			}
		}
	}
	return true
}
