package oracle

import (
	"regexp"
	"strconv"
	"strings"
	"unicode"
	"unicode/utf8"
)

// DelimKind: AWK-style default, literal string, or regular expression.
type DelimKind int

const (
	DelimAwk DelimKind = iota
	DelimStr
	DelimRegex
)

type Delim struct {
	Kind DelimKind
	Str  string
	Re   *regexp.Regexp
}

// Field is one field of a line: its text (including the delimiter that ends
// it) and the character (rune) offset at which it starts in the line.
type Field struct {
	Text   string
	Offset int
}

// Split partitions the line into fields.
//
// AWK style: leading blanks (space, tab) belong to no field; a field is a run
// of non-blanks together with the blanks that follow it. Literal / regex
// delimiter: a field extends up to and including the next delimiter
// occurrence; the rest of the line is the last field. (Observed convention,
// on which the documentation is silent: with a literal delimiter a line that
// ends with the delimiter has a final empty field and an empty line has one
// empty field; with a regex delimiter neither has.)
func Split(line string, d Delim) []Field {
	var out []Field
	off := 0
	add := func(s string) {
		out = append(out, Field{s, off})
		off += utf8.RuneCountInString(s)
	}
	switch d.Kind {
	case DelimAwk:
		i := 0
		for i < len(line) && (line[i] == ' ' || line[i] == '\t') {
			i++
		}
		off = i // blanks are single-byte
		for i < len(line) {
			j := i
			for j < len(line) && line[j] != ' ' && line[j] != '\t' {
				j++
			}
			for j < len(line) && (line[j] == ' ' || line[j] == '\t') {
				j++
			}
			add(line[i:j])
			i = j
		}
	case DelimStr:
		rest := line
		for {
			k := -1
			if d.Str != "" {
				k = strings.Index(rest, d.Str)
			}
			if k < 0 {
				add(rest)
				break
			}
			add(rest[:k+len(d.Str)])
			rest = rest[k+len(d.Str):]
		}
	case DelimRegex:
		begin := 0
		for _, loc := range d.Re.FindAllStringIndex(line, -1) {
			add(line[begin:loc[1]])
			begin = loc[1]
		}
		if begin < len(line) {
			add(line[begin:])
		}
	}
	return out
}

// FieldRange is a field index expression; 0 means "open".
type FieldRange struct {
	Begin, End int
}

// ParseFieldRange reads the documented spellings N, -N, A..B, A.., ..B, .. ;
// ok=false for anything else (incl. index 0).
func ParseFieldRange(s string) (r FieldRange, ok bool) {
	num := func(x string) (int, bool) {
		n, err := strconv.Atoi(x)
		return n, err == nil && n != 0
	}
	if s == ".." {
		return FieldRange{0, 0}, true
	}
	if i := strings.Index(s, ".."); i >= 0 {
		a, b := s[:i], s[i+2:]
		if strings.Contains(b, "..") {
			return r, false
		}
		if a != "" {
			if r.Begin, ok = num(a); !ok {
				return r, false
			}
		}
		if b != "" {
			if r.End, ok = num(b); !ok {
				return r, false
			}
		}
		return r, true
	}
	n, ok := num(s)
	return FieldRange{n, n}, ok
}

func (r FieldRange) String() string {
	if r.Begin == 0 && r.End == 0 {
		return ".."
	}
	if r.Begin == r.End {
		return strconv.Itoa(r.Begin)
	}
	s := ""
	if r.Begin != 0 {
		s = strconv.Itoa(r.Begin)
	}
	s += ".."
	if r.End != 0 {
		s += strconv.Itoa(r.End)
	}
	return s
}

// Resolve gives the 1-based inclusive interval [lo,hi] of selected fields
// among n fields (lo>hi: nothing selected).
func (r FieldRange) Resolve(n int) (lo, hi int) {
	lo, hi = r.Begin, r.End
	if lo == 0 {
		lo = 1
	} else if lo < 0 {
		lo += n + 1
	}
	if hi == 0 {
		hi = n
	} else if hi < 0 {
		hi += n + 1
	}
	if lo < 1 {
		if r.Begin == r.End {
			return 1, 0 // a single index that does not exist selects nothing
		}
		lo = 1
	}
	if hi > n {
		if r.Begin == r.End {
			return 1, 0
		}
		hi = n
	}
	return lo, hi
}

// Select returns the concatenated text of the selected fields and the rune
// offset where it starts in the line (meaningful when something is selected).
func Select(fields []Field, r FieldRange) (text string, offset int, any bool) {
	lo, hi := r.Resolve(len(fields))
	if lo > hi {
		return "", 0, false
	}
	var sb strings.Builder
	for i := lo; i <= hi; i++ {
		sb.WriteString(fields[i-1].Text)
	}
	return sb.String(), fields[lo-1].Offset, true
}

// StripLastDelim removes one trailing delimiter occurrence and then trailing
// white space (what --with-nth / --accept-nth / {N} do with the end of the
// selected text for literal and regex delimiters).
func StripLastDelim(s string, d Delim) string {
	switch d.Kind {
	case DelimStr:
		if d.Str != "" {
			s = strings.TrimSuffix(s, d.Str)
		}
	case DelimRegex:
		locs := d.Re.FindAllStringIndex(s, -1)
		if len(locs) > 0 && locs[len(locs)-1][1] == len(s) {
			s = s[:locs[len(locs)-1][0]]
		}
	}
	return strings.TrimRightFunc(s, unicode.IsSpace)
}

// WithNth is the display text produced by --with-nth for a list of ranges:
// the selected texts concatenated (trailing white space of the whole removed).
func WithNth(line string, d Delim, ranges []FieldRange) string {
	fields := Split(line, d)
	var sb strings.Builder
	for _, r := range ranges {
		t, _, _ := Select(fields, r)
		sb.WriteString(t)
	}
	return strings.TrimRightFunc(sb.String(), unicode.IsSpace)
}
