package oracle

import (
	"strings"
	"unicode"
)

// NormRune maps an accented Latin letter to its base letter (snapshot table).
func NormRune(r rune) rune {
	if n, ok := normTable[r]; ok {
		return n
	}
	return r
}

// HasNormalizable tells whether s contains a letter the table would change.
func HasNormalizable(s string) bool {
	for _, r := range s {
		if NormRune(r) != r {
			return true
		}
	}
	return false
}

// NormString normalises every rune.
func NormString(s string) string {
	return strings.Map(NormRune, s)
}

// Folding describes how a character of the line is compared with a character
// of the (prepared) term.
type Folding struct {
	CaseSensitive bool
	Normalize     bool
}

// Fold applies the folding to one rune of the line.
func (f Folding) Fold(r rune) rune {
	if !f.CaseSensitive {
		r = unicode.ToLower(r)
	}
	if f.Normalize {
		r = NormRune(r)
	}
	return r
}

func (f Folding) FoldRunes(rs []rune) []rune {
	out := make([]rune, len(rs))
	for i, r := range rs {
		out[i] = f.Fold(r)
	}
	return out
}

// CaseMode of the command line: "smart" (default), "ignore" (-i), "respect" (+i).
type CaseMode int

const (
	CaseSmart CaseMode = iota
	CaseIgnore
	CaseRespect
)

// PrepareTerm turns the raw body of a term (operators already removed) into
// the prepared pattern and folding, the way the documentation describes:
// smart-case is decided per term on its raw text, normalisation applies unless
// --literal is given or the term itself carries a normalisable letter.
//
// rawToken is the token the decision is made on (the documentation says "the
// term"; fzf decides on the token including its operator characters, which
// are caseless and never normalisable, so both readings agree).
func PrepareTerm(rawToken string, body string, mode CaseMode, literal bool) (pattern []rune, f Folding) {
	lower := strings.ToLower(rawToken)
	f.CaseSensitive = mode == CaseRespect || mode == CaseSmart && rawToken != lower
	f.Normalize = !literal && !HasNormalizable(lower)
	if !f.CaseSensitive {
		body = strings.ToLower(body)
	}
	if f.Normalize {
		body = NormString(body)
	}
	pattern = []rune(body)
	return
}
