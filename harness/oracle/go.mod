module verif.local/oracle

go 1.20
