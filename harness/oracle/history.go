package oracle

import "strings"

// HistoryModel is the documented behaviour of --history / --history-size.
type HistoryModel struct {
	Max     int
	Entries []string // what the file holds, oldest first
}

// LoadFile: entries are the lines of the file (surrounding newlines ignored).
func (h *HistoryModel) LoadFile(content string, exists bool) {
	h.Entries = nil
	if !exists {
		return
	}
	trimmed := strings.Trim(content, "\n")
	if trimmed == "" {
		return
	}
	h.Entries = strings.Split(trimmed, "\n")
}

// FileContent is what the file must hold after a submit.
func (h *HistoryModel) FileContent() string {
	if len(h.Entries) == 0 {
		return ""
	}
	return strings.Join(h.Entries, "\n") + "\n"
}

// Session models one fzf run: a cursor over the stored entries plus a scratch
// line; edits are remembered per entry for the session only.
type HistorySession struct {
	h      *HistoryModel
	lines  []string
	edited map[int]string
	cur    int
}

func (h *HistoryModel) NewSession() *HistorySession {
	s := &HistorySession{h: h, edited: map[int]string{}}
	s.lines = append(append([]string{}, h.Entries...), "")
	s.cur = len(s.lines) - 1
	return s
}

func (s *HistorySession) current() string {
	if v, ok := s.edited[s.cur]; ok {
		return v
	}
	return s.lines[s.cur]
}

func (s *HistorySession) remember(input string) {
	if s.cur == len(s.lines)-1 {
		s.lines[s.cur] = input
	} else {
		s.edited[s.cur] = input
	}
}

// Previous: the current input is remembered for the entry being left.
func (s *HistorySession) Previous(input string) string {
	s.remember(input)
	if s.cur > 0 {
		s.cur--
	}
	return s.current()
}

func (s *HistorySession) Next(input string) string {
	s.remember(input)
	if s.cur < len(s.lines)-1 {
		s.cur++
	}
	return s.current()
}

// Original is the text of the entry under the cursor as it was loaded.
func (s *HistorySession) Original() string { return s.lines[s.cur] }

// AtStored tells whether the cursor is on a stored entry (not the scratch line).
func (s *HistorySession) AtStored() bool { return s.cur < len(s.lines)-1 }

// Submit: a non-empty query is appended and the list is capped.
func (s *HistorySession) Submit(input string) {
	if input == "" {
		return
	}
	s.h.Entries = append(s.h.Entries, input)
	if len(s.h.Entries) > s.h.Max {
		s.h.Entries = s.h.Entries[len(s.h.Entries)-s.h.Max:]
	}
}
