package oracle

import "unicode"

// TermKind enumerates the six documented term kinds.
type TermKind int

const (
	KindFuzzy TermKind = iota
	KindExact
	KindBoundary
	KindPrefix
	KindSuffix
	KindEqual
)

var KindNames = []string{"fuzzy", "exact", "boundary", "prefix", "suffix", "equal"}

func (k TermKind) String() string { return KindNames[k] }

func leadingSpaces(text []rune) int {
	n := 0
	for n < len(text) && unicode.IsSpace(text[n]) {
		n++
	}
	return n
}

func trailingSpaces(text []rune) int {
	n := 0
	for n < len(text) && unicode.IsSpace(text[len(text)-1-n]) {
		n++
	}
	return n
}

func equalAt(folded []rune, at int, pat []rune) bool {
	if at < 0 || at+len(pat) > len(folded) {
		return false
	}
	for i, r := range pat {
		if folded[at+i] != r {
			return false
		}
	}
	return true
}

// boundaryOK: the occurrence [start,end) is delimited on both sides by the
// start/end of the line or by a white-space, non-word (incl. underscore) or
// delimiter character.
func boundaryOK(s Scheme, text []rune, start, end int) bool {
	if start > 0 && s.Class(text[start-1]) > ClsDelim {
		return false
	}
	if end < len(text) && s.Class(text[end]) > ClsDelim {
		return false
	}
	return true
}

// Occurrences returns the start offsets of all witnesses of a non-fuzzy term
// of the given kind. pat must be non-empty.
func Occurrences(s Scheme, kind TermKind, text []rune, folded []rune, pat []rune) []int {
	M := len(pat)
	var out []int
	switch kind {
	case KindExact, KindBoundary:
		for at := 0; at+M <= len(folded); at++ {
			if equalAt(folded, at, pat) && (kind == KindExact || boundaryOK(s, text, at, at+M)) {
				out = append(out, at)
			}
		}
	case KindPrefix:
		at := 0
		if !unicode.IsSpace(pat[0]) {
			at = leadingSpaces(text)
		}
		if equalAt(folded, at, pat) {
			out = append(out, at)
		}
	case KindSuffix:
		end := len(text)
		if !unicode.IsSpace(pat[M-1]) {
			end -= trailingSpaces(text)
		}
		if equalAt(folded, end-M, pat) {
			out = append(out, end-M)
		}
	case KindEqual:
		at, end := 0, len(text)
		if !unicode.IsSpace(pat[0]) {
			at = leadingSpaces(text)
		}
		if !unicode.IsSpace(pat[M-1]) {
			end -= trailingSpaces(text)
		}
		if end-at == M && equalAt(folded, at, pat) {
			out = append(out, at)
		}
	}
	return out
}

// Matches tells whether a (prepared, non-empty) term of the given kind has a
// witness in the line.
func Matches(s Scheme, kind TermKind, text []rune, f Folding, pat []rune) bool {
	folded := f.FoldRunes(text)
	if kind == KindFuzzy {
		return IsSubsequence(folded, pat)
	}
	return len(Occurrences(s, kind, text, folded, pat)) > 0
}
