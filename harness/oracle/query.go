package oracle

import (
	"strings"
)

// Term is one search term of the documented extended-search syntax.
type Term struct {
	Kind TermKind
	Inv  bool
	Body string // literal text to look for (spaces are real spaces)
}

// Query is an AND of OR groups.
type Query [][]Term

// QueryOpts are the options that change the reading / evaluation of a query.
type QueryOpts struct {
	Exact    bool // --exact
	Extended bool // !--no-extended
	Case     CaseMode
	Literal  bool
}

func escapeBody(b string) string {
	return strings.ReplaceAll(b, " ", "\\ ")
}

// RenderTerm spells a term with the documented operators for the active mode.
func RenderTerm(t Term, exactMode bool) string {
	b := escapeBody(t.Body)
	s := ""
	switch t.Kind {
	case KindFuzzy:
		if exactMode || t.Inv {
			s = "'" + b
		} else {
			s = b
		}
	case KindExact:
		if exactMode || t.Inv {
			s = b
		} else {
			s = "'" + b
		}
	case KindBoundary:
		s = "'" + b + "'"
	case KindPrefix:
		s = "^" + b
	case KindSuffix:
		s = b + "$"
	case KindEqual:
		s = "^" + b + "$"
	}
	if t.Inv {
		s = "!" + s
	}
	return s
}

// Render spells the query; pad(i) gives the number of extra blanks to insert
// at the i-th separator position (may be nil).
func Render(q Query, exactMode bool, pad func(i int) int) string {
	var sb strings.Builder
	n := 0
	sep := func() {
		sb.WriteByte(' ')
		if pad != nil {
			for k := pad(n); k > 0; k-- {
				sb.WriteByte(' ')
			}
		}
		n++
	}
	if pad != nil {
		for k := pad(-1); k > 0; k-- {
			sb.WriteByte(' ')
		}
	}
	for gi, g := range q {
		if gi > 0 {
			sep()
		}
		for ti, t := range g {
			if ti > 0 {
				sep()
				sb.WriteByte('|')
				sep()
			}
			sb.WriteString(RenderTerm(t, exactMode))
		}
	}
	return sb.String()
}

// BodyOK tells whether a body can be written down unambiguously with the
// documented operators (the documentation does not say how operator
// characters at the edges of a term are read, so generators avoid them).
func BodyOK(b string) bool {
	if b == "" || b == "|" {
		return false
	}
	if strings.ContainsAny(b, "\t\n\r\x00") {
		return false
	}
	// a backslash stands for itself unless a blank follows it; at the end of a body it would
	// swallow the separator
	if strings.HasSuffix(b, "\\") {
		return false
	}
	switch b[0] {
	case '\'', '^', '!':
		return false
	}
	switch b[len(b)-1] {
	case '$', '\'':
		return false
	}
	return true
}

// Parse reads a query text by the documented grammar; it is used to guard the
// generator (Parse(Render(q)) must give back q).
func Parse(text string, exactMode bool) Query {
	// split on unescaped blanks
	var tokens []string
	var cur strings.Builder
	has := false
	rs := []rune(text)
	for i := 0; i < len(rs); i++ {
		r := rs[i]
		if r == '\\' && i+1 < len(rs) && rs[i+1] == ' ' {
			cur.WriteRune(' ')
			has = true
			i++
			continue
		}
		if r == ' ' {
			if has {
				tokens = append(tokens, cur.String())
				cur.Reset()
				has = false
			}
			continue
		}
		cur.WriteRune(r)
		has = true
	}
	if has {
		tokens = append(tokens, cur.String())
	}
	var q Query
	var group []Term
	afterBar := false
	for _, tok := range tokens {
		if tok == "|" && len(group) > 0 && !afterBar {
			afterBar = true
			continue
		}
		t := Term{Kind: KindFuzzy}
		if exactMode {
			t.Kind = KindExact
		}
		b := tok
		if strings.HasPrefix(b, "!") {
			t.Inv = true
			t.Kind = KindExact
			b = b[1:]
		}
		suffix := false
		if b != "$" && strings.HasSuffix(b, "$") {
			suffix = true
			t.Kind = KindSuffix
			b = b[:len(b)-1]
		}
		switch {
		case len(b) > 2 && strings.HasPrefix(b, "'") && strings.HasSuffix(b, "'"):
			t.Kind = KindBoundary
			b = b[1 : len(b)-1]
		case strings.HasPrefix(b, "'"):
			if !exactMode && !t.Inv {
				t.Kind = KindExact
			} else {
				t.Kind = KindFuzzy
			}
			b = b[1:]
		case strings.HasPrefix(b, "^"):
			if suffix {
				t.Kind = KindEqual
			} else {
				t.Kind = KindPrefix
			}
			b = b[1:]
		}
		if b == "" {
			afterBar = false
			continue
		}
		t.Body = b
		if afterBar {
			group = append(group, t)
		} else {
			if len(group) > 0 {
				q = append(q, group)
			}
			group = []Term{t}
		}
		afterBar = false
	}
	if len(group) > 0 {
		q = append(q, group)
	}
	return q
}

func QueryEqual(a, b Query) bool {
	if len(a) != len(b) {
		return false
	}
	for i := range a {
		if len(a[i]) != len(b[i]) {
			return false
		}
		for j := range a[i] {
			if a[i][j] != b[i][j] {
				return false
			}
		}
	}
	return true
}

// EvalTermOn tells whether the term (ignoring negation) has a witness in any
// of the given texts (the whole line, or the fields selected by --nth).
func EvalTermOn(t Term, o QueryOpts, texts [][]rune) bool {
	pat, f := PrepareTerm(t.Body, t.Body, o.Case, o.Literal)
	s := SchemeOf("default") // the boundary predicate does not depend on the scheme
	for _, text := range texts {
		if Matches(s, t.Kind, text, f, pat) {
			return true
		}
	}
	return false
}

// Eval: does the line (or its selected fields) satisfy the query?
func (q Query) Eval(o QueryOpts, texts [][]rune) bool {
	for _, g := range q {
		ok := false
		for _, t := range g {
			if EvalTermOn(t, o, texts) != t.Inv {
				ok = true
				break
			}
		}
		if !ok {
			return false
		}
	}
	return true
}

// EvalRaw evaluates a --no-extended query: the whole string is one fuzzy (or,
// with --exact, one exact) term; an empty query matches everything.
func EvalRaw(raw string, o QueryOpts, texts [][]rune) bool {
	if raw == "" {
		return true
	}
	k := KindFuzzy
	if o.Exact {
		k = KindExact
	}
	return EvalTermOn(Term{Kind: k, Body: raw}, o, texts)
}

// HasPositive tells whether the query has at least one non-negated term
// (otherwise results are documented to stay in input order).
func (q Query) HasPositive() bool {
	for _, g := range q {
		for _, t := range g {
			if !t.Inv {
				return true
			}
		}
	}
	return false
}
