package oracle

import "bytes"

// SplitRecords: records are terminated by delim; a final unterminated record
// counts if it is non-empty.
func SplitRecords(stream []byte, delim byte) [][]byte {
	var out [][]byte
	for len(stream) > 0 {
		i := bytes.IndexByte(stream, delim)
		if i < 0 {
			out = append(out, stream)
			break
		}
		out = append(out, stream[:i])
		stream = stream[i+1:]
	}
	return out
}
