package oracle

import (
	"unicode"
)

// Character classes of the documented scoring model.
const (
	ClsWhite = iota
	ClsNonWord
	ClsDelim
	ClsLower
	ClsUpper
	ClsLetter
	ClsNumber
)

const (
	ScoreMatch        = 16
	GapStart          = -3
	GapExtension      = -1
	BonusBoundary     = 8
	BonusNonWord      = 8
	BonusCamel123     = 7
	BonusConsecutive  = 4
	FirstCharMultiple = 2
)

// Scheme holds the scheme-dependent parameters (--scheme).
type Scheme struct {
	Name    string
	BWhite  int    // boundary bonus after white space / at start of line
	BDelim  int    // boundary bonus after a delimiter
	Delims  string // delimiter characters
	Initial int    // class assumed before the first character
}

func SchemeOf(name string) Scheme {
	switch name {
	case "path":
		return Scheme{"path", BonusBoundary, BonusBoundary + 1, "/", ClsDelim}
	case "history":
		return Scheme{"history", BonusBoundary, BonusBoundary, "/,:;|", ClsWhite}
	}
	return Scheme{"default", BonusBoundary + 2, BonusBoundary + 1, "/,:;|", ClsWhite}
}

var SchemeNames = []string{"default", "path", "history"}

const asciiWhite = " \t\n\v\f\r"

func containsRune(s string, r rune) bool {
	for _, x := range s {
		if x == r {
			return true
		}
	}
	return false
}

// Class returns the character class of r under the scheme.
func (s Scheme) Class(r rune) int {
	switch {
	case r >= 'a' && r <= 'z':
		return ClsLower
	case r >= 'A' && r <= 'Z':
		return ClsUpper
	case r >= '0' && r <= '9':
		return ClsNumber
	}
	if r < 128 {
		if containsRune(asciiWhite, r) {
			return ClsWhite
		}
		if containsRune(s.Delims, r) {
			return ClsDelim
		}
		return ClsNonWord
	}
	switch {
	case unicode.IsLower(r):
		return ClsLower
	case unicode.IsUpper(r):
		return ClsUpper
	case unicode.IsNumber(r):
		return ClsNumber
	case unicode.IsLetter(r):
		return ClsLetter
	case unicode.IsSpace(r):
		return ClsWhite
	}
	if containsRune(s.Delims, r) {
		return ClsDelim
	}
	return ClsNonWord
}

// Bonus of a character of class cur preceded by a character of class prev.
func (s Scheme) Bonus(prev, cur int) int {
	if cur > ClsNonWord {
		switch prev {
		case ClsWhite:
			return s.BWhite
		case ClsDelim:
			return s.BDelim
		case ClsNonWord:
			return BonusBoundary
		}
	}
	if prev == ClsLower && cur == ClsUpper || prev != ClsNumber && cur == ClsNumber {
		return BonusCamel123
	}
	switch cur {
	case ClsNonWord, ClsDelim:
		return BonusNonWord
	case ClsWhite:
		return s.BWhite
	}
	return 0
}

// Bonuses returns the positional bonus of every character of the line.
func (s Scheme) Bonuses(text []rune) []int {
	B := make([]int, len(text))
	prev := s.Initial
	for j, r := range text {
		c := s.Class(r)
		B[j] = s.Bonus(prev, c)
		prev = c
	}
	return B
}

// BonusAtExact is the bonus the exact matcher family attributes to an
// occurrence starting at idx: like Bonuses, except that the start of the line
// always counts as preceded by white space.
func (s Scheme) BonusAtExact(text []rune, idx int) int {
	if idx == 0 {
		return s.BWhite
	}
	return s.Bonus(s.Class(text[idx-1]), s.Class(text[idx]))
}

const NegInf = -1 << 40

// FullDP is scorer A: the documented dynamic programme evaluated on the whole
// line, in plain ints, with no window, no pre-filter and no scratch memory.
// folded is the line after case/accent folding, text the line itself (for the
// character classes). It returns whether the pattern is a subsequence, the
// best score of the last row, and the columns at which that score is reached.
func FullDP(s Scheme, text []rune, folded []rune, pat []rune) (matched bool, score int, argmax []int) {
	N, M := len(text), len(pat)
	if M == 0 {
		return true, 0, nil
	}
	if M > N {
		return false, 0, nil
	}
	B := s.Bonuses(text)
	H := make([][]int, M)
	C := make([][]int, M)
	for i := range H {
		H[i] = make([]int, N)
		C[i] = make([]int, N)
		for j := range H[i] {
			H[i][j] = NegInf
		}
	}
	// Row 0: a match scores 16 + 2*bonus; after the first occurrence the
	// score decays by the gap penalties and is clipped at zero.
	seen := false
	inGap := false
	prevH := 0
	for j := 0; j < N; j++ {
		if folded[j] == pat[0] {
			H[0][j] = ScoreMatch + FirstCharMultiple*B[j]
			C[0][j] = 1
			inGap = false
			seen = true
			prevH = H[0][j]
			continue
		}
		v := prevH + GapStart
		if inGap {
			v = prevH + GapExtension
		}
		if v < 0 {
			v = 0
		}
		if seen {
			H[0][j] = v
		}
		inGap = true
		prevH = v
	}
	for i := 1; i < M; i++ {
		inGap := false
		for j := 1; j < N; j++ {
			diag := H[i-1][j-1]
			left := H[i][j-1]
			s1, s2 := NegInf, NegInf
			cons := 0
			if left > NegInf {
				if inGap {
					s2 = left + GapExtension
				} else {
					s2 = left + GapStart
				}
			}
			if folded[j] == pat[i] && diag > NegInf {
				s1 = diag + ScoreMatch
				b := B[j]
				cons = C[i-1][j-1] + 1
				if cons > 1 {
					fb := B[j-cons+1]
					if b >= BonusBoundary && b > fb {
						cons = 1
					} else {
						if fb > b {
							b = fb
						}
						if b < BonusConsecutive {
							b = BonusConsecutive
						}
					}
				}
				if s2 > NegInf && s1+b < s2 {
					s1 += B[j]
					cons = 0
				} else {
					s1 += b
				}
			}
			if s1 == NegInf && s2 == NegInf {
				continue
			}
			C[i][j] = cons
			inGap = s1 < s2
			v := s1
			if s2 > v {
				v = s2
			}
			if v < 0 {
				v = 0
			}
			H[i][j] = v
		}
	}
	best := NegInf
	for j := 0; j < N; j++ {
		v := H[M-1][j]
		if v == NegInf {
			continue
		}
		if v > best {
			best = v
			argmax = argmax[:0]
		}
		if v == best {
			argmax = append(argmax, j)
		}
	}
	if best == NegInf {
		return false, 0, nil
	}
	return true, best, argmax
}

// AlignmentScore is the score of one explicit alignment (strictly increasing
// positions of the pattern characters in the line) under the documented
// rules: 16 per matched character, positional bonus (doubled for the first
// pattern character), consecutive-run bonus (at least 4, at least the bonus
// of the first character of the run, a run restarting at a stronger
// boundary), gap penalties -3 then -1 per skipped character between matches.
func AlignmentScore(s Scheme, text []rune, positions []int) int {
	return alignmentScore(s, text, positions, false)
}

// AlignmentScoreClipped is the documented recurrence evaluated along one
// explicit alignment only: the same walk, with the running score clipped at
// zero after every step, as the (Smith-Waterman style) recurrence does.
func AlignmentScoreClipped(s Scheme, text []rune, positions []int) int {
	return alignmentScore(s, text, positions, true)
}

func alignmentScore(s Scheme, text []rune, positions []int, clip bool) int {
	if len(positions) == 0 {
		return 0
	}
	B := s.Bonuses(text)
	score := 0
	inGap := false
	consecutive := 0
	firstBonus := 0
	p := 0
	for idx := positions[0]; idx <= positions[len(positions)-1]; idx++ {
		if p < len(positions) && positions[p] == idx {
			score += ScoreMatch
			bonus := B[idx]
			if consecutive == 0 {
				firstBonus = bonus
			} else {
				if bonus >= BonusBoundary && bonus > firstBonus {
					firstBonus = bonus
				}
				if firstBonus > bonus {
					bonus = firstBonus
				}
				if bonus < BonusConsecutive {
					bonus = BonusConsecutive
				}
			}
			if p == 0 {
				score += bonus * FirstCharMultiple
			} else {
				score += bonus
			}
			inGap = false
			consecutive++
			p++
		} else {
			if inGap {
				score += GapExtension
			} else {
				score += GapStart
			}
			inGap = true
			consecutive = 0
			firstBonus = 0
			if clip && score < 0 {
				score = 0
			}
		}
	}
	return score
}

// Embeddings calls f with every embedding (strictly increasing positions) of
// pat in folded; it stops after limit embeddings and reports whether the
// enumeration was complete.
func Embeddings(folded []rune, pat []rune, limit int, f func(pos []int)) (count int, complete bool) {
	M := len(pat)
	pos := make([]int, M)
	complete = true
	var rec func(i, from int) bool
	rec = func(i, from int) bool {
		if i == M {
			count++
			f(pos)
			return count < limit
		}
		for j := from; j <= len(folded)-(M-i); j++ {
			if folded[j] == pat[i] {
				pos[i] = j
				if !rec(i+1, j+1) {
					return false
				}
			}
		}
		return true
	}
	if M == 0 {
		return 0, true
	}
	if !rec(0, 0) {
		complete = false
	}
	return
}

// BestAlignment is scorer B: the maximum AlignmentScore over all embeddings.
func BestAlignment(s Scheme, text []rune, folded []rune, pat []rune, limit int, clip bool) (exists bool, best int, count int, complete bool) {
	best = NegInf
	count, complete = Embeddings(folded, pat, limit, func(pos []int) {
		if v := alignmentScore(s, text, pos, clip); v > best {
			best = v
		}
	})
	return count > 0, best, count, complete
}

// IsSubsequence reports whether pat can be embedded in folded.
func IsSubsequence(folded []rune, pat []rune) bool {
	i := 0
	for _, r := range folded {
		if i < len(pat) && r == pat[i] {
			i++
		}
	}
	return i == len(pat)
}

// GreedySpan is the reference for --algo=v1: the first occurrence scanning in
// the given direction, shrunk from the other side. It returns the span
// [start,end) in line coordinates.
func GreedySpan(folded []rune, pat []rune, forward bool) (ok bool, start, end int) {
	N, M := len(folded), len(pat)
	if M == 0 {
		return true, 0, 0
	}
	at := func(i, max int) int {
		if forward {
			return i
		}
		return max - i - 1
	}
	pidx, sidx, eidx := 0, -1, -1
	for i := 0; i < N; i++ {
		if folded[at(i, N)] == pat[at(pidx, M)] {
			if sidx < 0 {
				sidx = i
			}
			pidx++
			if pidx == M {
				eidx = i + 1
				break
			}
		}
	}
	if eidx < 0 {
		return false, -1, -1
	}
	pidx--
	for i := eidx - 1; i >= sidx; i-- {
		if folded[at(i, N)] == pat[at(pidx, M)] {
			pidx--
			if pidx < 0 {
				sidx = i
				break
			}
		}
	}
	if !forward {
		sidx, eidx = N-eidx, N-sidx
	}
	return true, sidx, eidx
}

// SpanScore scores the greedy left-to-right alignment of pat inside
// [start,end) — the documented score of an occurrence reported by the v1
// algorithm and by the exact / prefix / suffix matchers.
func SpanScore(s Scheme, text []rune, folded []rune, pat []rune, start, end int) (score int, positions []int) {
	p := 0
	for idx := start; idx < end && p < len(pat); idx++ {
		if folded[idx] == pat[p] {
			positions = append(positions, idx)
			p++
		}
	}
	if p < len(pat) {
		return NegInf, nil
	}
	// positions is the greedy alignment; trailing unmatched characters inside
	// the span (there are none for the spans fzf reports) would count as gaps.
	score = AlignmentScore(s, text, positions)
	if len(positions) > 0 {
		// leading / trailing gap inside the span
		lead := positions[0] - start
		trail := end - 1 - positions[len(positions)-1]
		for k := 0; k < lead; k++ {
			if k == 0 {
				score += GapStart
			} else {
				score += GapExtension
			}
		}
		for k := 0; k < trail; k++ {
			if k == 0 {
				score += GapStart
			} else {
				score += GapExtension
			}
		}
	}
	return
}

// EqualScore is the documented score of an equal (^t$) match.
func EqualScore(s Scheme, M int) int {
	return (ScoreMatch+s.BWhite)*M + (FirstCharMultiple-1)*s.BWhite
}

// BoundaryScore is the documented score of a word-boundary ('t') occurrence
// at [start,end): base + bonus of the first character, with underscore
// neighbours ranked below other boundaries (foo > foo_ > _foo > _foo_).
func BoundaryScore(s Scheme, text []rune, start, end int) int {
	bonus := s.BonusAtExact(text, start)
	score := bonus
	deduct := bonus - BonusBoundary + 1
	if start > 0 && text[start-1] == '_' {
		score -= deduct + 1
		deduct = 1
	}
	if end < len(text) && text[end] == '_' {
		score -= deduct
	}
	M := end - start
	return score + ScoreMatch*M + s.BWhite*(M+1)
}
