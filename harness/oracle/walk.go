package oracle

import (
	"sort"
	"strings"
)

// WNode is a node of a generated directory tree.
type WNode struct {
	Name     string
	Kind     int // WFile, WDir, WLink
	Children []*WNode
	Target   *WNode // WLink: node pointed to (nil = dangling)
	Parent   *WNode
}

const (
	WFile = iota
	WDir
	WLink
)

type WalkOpts struct {
	File, Dir, Follow, Hidden bool
}

// WalkResult: Must = entries that have to be listed exactly once; May =
// entries whose listing the documentation leaves open (each at most once).
type WalkResult struct {
	Must []string
	May  []string
}

func skipMatch(path, base string, skips []string) bool {
	for _, s := range skips {
		if s == "" {
			continue
		}
		if !strings.Contains(s, "/") {
			if base == s {
				return true
			}
			continue
		}
		if strings.HasPrefix(s, "/") {
			if strings.HasSuffix(path, s) {
				return true
			}
			continue
		}
		if path == s || strings.HasSuffix(path, "/"+s) {
			return true
		}
	}
	return false
}

// Walk models the built-in walker for one root. rootPath is the root exactly
// as given on the command line ("." for the current directory).
func Walk(root *WNode, rootPath string, o WalkOpts, skips []string) WalkResult {
	var res WalkResult
	prefix := rootPath
	for strings.HasPrefix(prefix, "./") {
		prefix = prefix[2:]
	}
	if prefix == "." {
		prefix = ""
	}
	join := func(dir, name string) string {
		if dir == "" {
			return name
		}
		if strings.HasSuffix(dir, "/") {
			return dir + name
		}
		return dir + "/" + name
	}
	if prefix != "" {
		// the root's own entry: whether it counts as "under the root" is left open
		p := strings.TrimSuffix(prefix, "/")
		if p == "" {
			p = "/"
		}
		if o.Dir {
			if p == "/" {
				res.May = append(res.May, "/")
			} else {
				res.May = append(res.May, p+"/")
			}
		}
	}
	var visit func(dir *WNode, path string, ancestors []*WNode)
	visit = func(dir *WNode, path string, ancestors []*WNode) {
		anc := append(append([]*WNode{}, ancestors...), dir)
		for _, c := range dir.Children {
			p := join(path, c.Name)
			hiddenName := strings.HasPrefix(c.Name, ".")
			switch c.Kind {
			case WFile:
				if o.File {
					if hiddenName && !o.Hidden {
						res.May = append(res.May, p) // hidden file in a visible directory
					} else {
						res.Must = append(res.Must, p)
					}
				}
			case WDir:
				if hiddenName && !o.Hidden {
					continue
				}
				if skipMatch(p, c.Name, skips) {
					continue
				}
				if o.Dir {
					res.Must = append(res.Must, p+"/")
				}
				visit(c, p, anc)
			case WLink:
				t := c.Target
				isDirLink := t != nil && t.Kind == WDir
				if !o.Follow || !isDirLink {
					// a symbolic link that is not followed is a plain entry
					if o.File {
						if hiddenName && !o.Hidden {
							res.May = append(res.May, p)
						} else {
							res.Must = append(res.Must, p)
						}
					}
					continue
				}
				if hiddenName && !o.Hidden {
					continue
				}
				if skipMatch(p, c.Name, skips) {
					continue
				}
				// how the link itself is listed is left open
				res.May = append(res.May, p+"/", p)
				// descended unless that would loop: the target is the root or one of
				// the directories on the way down
				loop := t == root
				for _, a := range anc {
					if a == t {
						loop = true
					}
				}
				// ... or one of the directories above the root (the walker compares the link with every
				// directory named on the way from the current directory down to it)
				for a := root.Parent; a != nil; a = a.Parent {
					if a == t {
						loop = true
					}
				}
				if !loop {
					visit(t, p, anc)
				}
			}
		}
	}
	visit(root, prefix, nil)
	sort.Strings(res.Must)
	sort.Strings(res.May)
	return res
}

// CheckWalk compares a listing with the model: every Must entry exactly once,
// every May entry at most once, nothing else.
func CheckWalk(got []string, want WalkResult) string {
	count := map[string]int{}
	for _, g := range got {
		count[g]++
	}
	for _, m := range want.Must {
		if count[m] != 1 {
			return "entry " + quote(m) + " listed " + itoa(count[m]) + " times, expected once"
		}
		delete(count, m)
	}
	may := map[string]bool{}
	for _, m := range want.May {
		may[m] = true
	}
	var extra []string
	for g, n := range count {
		if may[g] && n == 1 {
			continue
		}
		extra = append(extra, g)
	}
	sort.Strings(extra)
	if len(extra) > 0 {
		return "unexpected entries " + strings.Join(quoteAll(extra), ", ")
	}
	return ""
}

func quote(s string) string {
	return "\"" + strings.NewReplacer("\n", "\\n", "\"", "\\\"").Replace(s) + "\""
}

func quoteAll(ss []string) []string {
	out := make([]string, len(ss))
	for i, s := range ss {
		out[i] = quote(s)
	}
	return out
}

func itoa(n int) string {
	if n == 0 {
		return "0"
	}
	s := ""
	neg := n < 0
	if neg {
		n = -n
	}
	for n > 0 {
		s = string(rune('0'+n%10)) + s
		n /= 10
	}
	if neg {
		s = "-" + s
	}
	return s
}
