//go:build verif

package proc

import (
	"fmt"
	"strings"
	"testing"

	"pgregory.net/rapid"
	"verif.local/vstat"
)

// C02 in the running program: very long queries (only possible as the start-up --query: a typed
// one is cut to 1000 characters) on long lines that contain them. The line is found, and drawing
// it - the list re-matches the visible lines to highlight them, with scratch memory of its own -
// does not crash, whatever the product of line length and query length.
func c02ProcLongQuery(t *rapid.T) {
	qlen := rapid.SampledFrom([]int{300, 999, 1000, 1001, 1200, 1261, 1262, 1300, 1400, 1500, 1800, 2500, 4000}).Draw(t, "queryLen")
	extra := rapid.SampledFrom([]int{0, 0, 1, 50, 300, 700, 5000, 40000}).Draw(t, "lineExtra")
	lead := rapid.SampledFrom([]int{0, 3, 200}).Draw(t, "lead")
	alpha := []rune("abcdefghij")
	var qb strings.Builder
	for i := 0; i < qlen; i++ {
		qb.WriteRune(alpha[(i*7+i/10)%len(alpha)])
	}
	query := qb.String()
	scattered := rapid.IntRange(0, 3).Draw(t, "scattered") == 0
	body := query
	if scattered {
		// the query's characters with a foreign character after every tenth one
		var sb strings.Builder
		for i, r := range query {
			sb.WriteRune(r)
			if i%10 == 9 {
				sb.WriteByte('_')
			}
		}
		body = sb.String()
	}
	hit := strings.Repeat("x", lead) + body + strings.Repeat("y", extra)
	lines := []string{"short line", hit, strings.Repeat("z", 300), "another"}
	args := []string{"--no-mouse", "--query", query}
	if rapid.IntRange(0, 3).Draw(t, "v1") == 0 {
		args = append(args, "--algo=v1")
	}
	if rapid.IntRange(0, 3).Draw(t, "exact") == 0 && !scattered {
		args = append(args, "--exact")
	}
	if rapid.Bool().Draw(t, "wrap") {
		args = append(args, "--wrap")
	}
	s := StartSession(t, SessionCfg{Args: args, Input: []byte(strings.Join(lines, "\n") + "\n"), Width: 100, Height: 14})
	defer s.Close()
	desc := fmt.Sprintf("fzf %v --query <%d characters> on a line of %d characters that contains them (scattered=%v)", args[3:], qlen, len(hit), scattered)
	nt := qlen > 1000 && qlen*len(hit) > 100*1024
	vstat.Case("C02/proc-long-query", fmt.Sprint(desc, lead, extra), nt, fmt.Sprintf("query=%d", qlen), fmt.Sprintf("scattered=%v", scattered))
	st, ok := s.WaitFor(10, func(st *Status) bool { return !st.Reading && st.TotalCount == len(lines) && st.MatchCount == 1 })
	if !ok {
		if pt := s.panicText(); pt != "" {
			t.Fatalf("%s: fzf crashed\n%s", desc, pt)
		}
		if !s.Alive() {
			code, _ := s.ExitStatus()
			t.Fatalf("%s: fzf exited with status %d\n%s", desc, code, s.Stderr())
		}
		t.Fatalf("%s: the line is not found: %s", desc, describe(st))
	}
	if st.Current == nil || st.Current.Index != 1 {
		t.Fatalf("%s: the current line is %s", desc, describe(st))
	}
	// drawn and still there: move, resize (redraw), ask again
	s.Post("down+up")
	s.Resize(90, 12)
	if _, ok := s.WaitFor(10, func(st *Status) bool { return st.MatchCount == 1 }); !ok || !s.Alive() {
		if pt := s.panicText(); pt != "" {
			t.Fatalf("%s: fzf crashed while drawing the line\n%s", desc, pt)
		}
		code, _ := s.ExitStatus()
		t.Fatalf("%s: fzf is gone after drawing the line (alive=%v, status %d)\n%s", desc, s.Alive(), code, s.Stderr())
	}
	s.Post("abort")
}

func TestVerifC02_ProcLongQuery(t *testing.T) {
	rapid.Check(t, c02ProcLongQuery)
}
