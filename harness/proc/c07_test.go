//go:build verif

package proc

import (
	"bytes"
	"fmt"
	"regexp"
	"strings"
	"testing"
	"time"

	"pgregory.net/rapid"
	"verif.local/oracle"
	"verif.local/vstat"
)

// C07 (process level) - byte-exact stdout and exit status of the real binary.

var c07Frags = []string{"a", "b", "ab", " ", "  ", "\t", "é", "漢", "x", ",", ",", "1", "_", "-"}

func c07Record(t *rapid.T, multiline bool, ansi bool) (raw string, plain string) {
	n := rapid.IntRange(0, 6).Draw(t, "nfrag")
	var rb, pb strings.Builder
	for i := 0; i < n; i++ {
		f := rapid.SampledFrom(c07Frags).Draw(t, "frag")
		if multiline && rapid.IntRange(0, 5).Draw(t, "nl") == 0 {
			f = "\n"
		}
		if ansi && rapid.IntRange(0, 3).Draw(t, "sgr") == 0 {
			seq := rapid.SampledFrom([]string{"\x1b[31m", "\x1b[1;44m", "\x1b[m", "\x1b[38;5;208m", "\x1b[0K",
				// the sequences without an ESC byte: charset shifts and an overstruck character (nroff bold)
				"\x0e", "\x0f", "_\x08", "\x1b(B"}).Draw(t, "seq")
			rb.WriteString(seq)
		}
		rb.WriteString(f)
		pb.WriteString(f)
	}
	return rb.String(), pb.String()
}

func delimOf(arg string) oracle.Delim {
	if arg == "" {
		return oracle.Delim{Kind: oracle.DelimAwk}
	}
	if len([]rune(arg)) == 1 {
		return oracle.Delim{Kind: oracle.DelimStr, Str: arg}
	}
	return oracle.Delim{Kind: oracle.DelimRegex, Re: regexp.MustCompile(arg)}
}

func simpleFuzzy(q string, text string) bool {
	return oracle.Query{{{Kind: oracle.KindFuzzy, Body: q}}}.Eval(oracle.QueryOpts{Extended: true}, [][]rune{[]rune(text)})
}

func TestVerifC07_ProcFilter(t *testing.T) {
	rapid.Check(t, func(t *rapid.T) {
		read0 := rapid.Bool().Draw(t, "read0")
		print0 := rapid.Bool().Draw(t, "print0")
		ansi := rapid.Bool().Draw(t, "ansi")
		printQuery := rapid.Bool().Draw(t, "printQuery")
		tac := rapid.Bool().Draw(t, "tac")
		mode := rapid.SampledFrom([]string{"--no-sort", "--no-sort", "--sync --no-sort", ""}).Draw(t, "mode")
		delimArg := rapid.SampledFrom([]string{"", "", ",", "[,;]+"}).Draw(t, "delim")
		withNth := rapid.SampledFrom([]string{"", "", "1", "2..", "-1", "..2"}).Draw(t, "withNth")
		n := rapid.IntRange(0, 12).Draw(t, "n")
		var raws, plains []string
		for i := 0; i < n; i++ {
			r, p := c07Record(t, read0, ansi)
			if !read0 && strings.Contains(r, "\n") {
				r, p = strings.ReplaceAll(r, "\n", " "), strings.ReplaceAll(p, "\n", " ")
			}
			raws, plains = append(raws, r), append(plains, p)
		}
		insep, outsep := "\n", "\n"
		if read0 {
			insep = "\x00"
		}
		if print0 {
			outsep = "\x00"
		}
		var input bytes.Buffer
		for i, r := range raws {
			input.WriteString(r)
			if i < len(raws)-1 || rapid.Bool().Draw(t, "finalSep") {
				input.WriteString(insep)
			}
		}
		// records as fzf splits them (an empty unterminated last record does not exist)
		recs := oracle.SplitRecords(input.Bytes(), insep[0])
		query := rapid.SampledFrom([]string{"", "", "a", "b", "ab"}).Draw(t, "query")
		if mode == "" {
			query = "" // sorted mode: keep the order oracle trivial
		}
		args := []string{"--filter", query}
		if read0 {
			args = append(args, "--read0")
		}
		if print0 {
			args = append(args, "--print0")
		}
		if ansi {
			args = append(args, "--ansi")
		}
		if printQuery {
			args = append(args, "--print-query")
		}
		if tac {
			args = append(args, "--tac")
		}
		if mode != "" {
			args = append(args, strings.Fields(mode)...)
		}
		if delimArg != "" {
			args = append(args, "--delimiter", delimArg)
		}
		var ranges []oracle.FieldRange
		if withNth != "" {
			args = append(args, "--with-nth", withNth)
			r, _ := oracle.ParseFieldRange(withNth)
			ranges = []oracle.FieldRange{r}
		}
		var want bytes.Buffer
		if printQuery {
			want.WriteString(query + outsep)
		}
		var matched []string
		transformed := false
		for _, rec := range recs {
			line := string(rec)
			printed := line
			if ansi {
				printed = oracle.StripAnsi(line)
			}
			search := printed
			if ranges != nil {
				// the fields are cut from the raw line; the text searched is the stripped selection
				search = oracle.WithNth(line, delimOf(delimArg), ranges)
				if ansi {
					search = oracle.StripAnsi(search)
				}
				search = strings.TrimRight(search, " \t\n\r\v\f")
			}
			if search != line {
				transformed = true
			}
			if query == "" || simpleFuzzy(query, search) {
				matched = append(matched, printed)
			}
		}
		if tac {
			for i, j := 0, len(matched)-1; i < j; i, j = i+1, j-1 {
				matched[i], matched[j] = matched[j], matched[i]
			}
		}
		for _, m := range matched {
			want.WriteString(m + outsep)
		}
		wantCode := 0
		if len(matched) == 0 {
			wantCode = 1
		}
		// the input arrives at once or in up to four instalments cut at any byte (in the middle of
		// records too): what is printed does not depend on that
		var pieces [][]byte
		rest := append([]byte{}, input.Bytes()...)
		for k := rapid.SampledFrom([]int{0, 0, 1, 2, 3}).Draw(t, "cuts"); k > 0 && len(rest) > 1; k-- {
			at := rapid.IntRange(1, len(rest)-1).Draw(t, "cutAt")
			pieces = append(pieces, rest[:at])
			rest = rest[at:]
		}
		pieces = append(pieces, rest)
		got, code := runFilterProcFrom(t, args, &instalments{pieces: pieces, pause: 4 * time.Millisecond}, nil)
		nopts := 0
		for _, b := range []bool{read0, print0, ansi, printQuery, withNth != ""} {
			if b {
				nopts++
			}
		}
		nt := (transformed || nopts >= 2) && len(matched) > 0
		vstat.Case("C07/proc-filter", fmt.Sprintf("%q|%q", args, input.String()), nt, fmt.Sprintf("read0=%v", read0), fmt.Sprintf("print0=%v", print0), fmt.Sprintf("ansi=%v", ansi), "withNth="+withNth, "mode="+mode, fmt.Sprintf("instalments=%d", len(pieces)))
		if nt && vstat.WantSample("C07/proc-filter") {
			vstat.Sample("C07/proc-filter", map[string]interface{}{"args": args, "stdin": input.String(), "stdout": string(got), "status": code})
		}
		if ansi && ranges != nil && len(recs) > 0 {
			// colours carried across field boundaries make the searched text of --ansi --with-nth
			// depend on tokenisation details; only the printed records are asserted
			if query != "" {
				return
			}
		}
		if !bytes.Equal(got, want.Bytes()) {
			t.Fatalf("fzf %q\nstdin  %q\nstdout %q\nwant   %q", args, input.String(), got, want.String())
		}
		if code != wantCode {
			t.Fatalf("fzf %q, stdin %q: exit status %d, expected %d", args, input.String(), code, wantCode)
		}
	})
}

// Interactive: selection histories and the ways a session can end.
func TestVerifC07_ProcInteractive(t *testing.T) {
	rapid.Check(t, func(t *rapid.T) {
		n := rapid.SampledFrom([]int{0, 1, 2, 6, 15}).Draw(t, "n")
		words := []string{"ab,,c", "x>,y=", "wide é " + strings.Repeat("élément-", 12) + ",end", " beta,y  2 ", "e:,,:f", "alpha,x 1", "a b,z,w", "é漢,q", "tail,", ",lead", "one", "b a,b a", "last,item 9"}
		// the delimiter is a literal string of one or two characters; the lines also
		// contain its characters on their own
		fieldSep := rapid.SampledFrom([]string{",", ",", "=>", "::"}).Draw(t, "fieldSep")
		lines := make([]string, n)
		for i := range lines {
			lines[i] = fmt.Sprintf("%s#%d", strings.ReplaceAll(words[i%len(words)], ",", fieldSep), i)
		}
		print0 := rapid.Bool().Draw(t, "print0")
		printQuery := rapid.Bool().Draw(t, "printQuery")
		expect := rapid.SampledFrom([]string{"", "", "ctrl-x", "f5,alt-k"}).Draw(t, "expect")
		acceptNth := rapid.SampledFrom([]string{"", "", "1", "2", "-1", "2..", "1..2", "..2", "2,1"}).Draw(t, "acceptNth")
		multi := rapid.Bool().Draw(t, "multi")
		initQuery := rapid.SampledFrom([]string{"", "", "a", "zzzz"}).Draw(t, "query")
		args := []string{"--no-sort", "--no-mouse", "--delimiter", fieldSep}
		outsep := "\n"
		if print0 {
			args = append(args, "--print0")
			outsep = "\x00"
		}
		if printQuery {
			args = append(args, "--print-query")
		}
		if expect != "" {
			args = append(args, "--expect", expect)
		}
		if acceptNth != "" {
			args = append(args, "--accept-nth", acceptNth)
		}
		sel := oracle.Selection{}
		if multi {
			args = append(args, "--multi")
			sel.Limit = 1 << 30
		}
		if initQuery != "" {
			args = append(args, "--query", initQuery)
		}
		input := []byte{}
		if n > 0 {
			input = []byte(strings.Join(lines, "\n") + "\n")
		}
		var results []int
		for i, l := range lines {
			if initQuery == "" || simpleFuzzy(initQuery, l) {
				results = append(results, i)
			}
		}
		s := StartSession(t, SessionCfg{Args: args, Input: input, Width: 70, Height: 14})
		defer s.Close()
		if _, ok := s.WaitFor(100, func(st *Status) bool { return !st.Reading && st.TotalCount == n && st.MatchCount == len(results) }); !ok {
			t.Fatalf("fzf %q with %d lines did not settle: %s", args, n, strings.Join(s.Capture(), "\n"))
		}
		cur := oracle.ListCursor{}
		history := []string{"fzf " + strings.Join(args, " ")}
		steps := rapid.IntRange(0, 14).Draw(t, "steps")
		for i := 0; i < steps; i++ {
			a := rapid.SampledFrom([]string{"up", "down", "toggle", "toggle", "toggle+up", "toggle+up", "toggle+down", "select-all", "deselect", "toggle-all"}).Draw(t, "action")
			current := -1
			if len(results) > 0 {
				current = results[cur.Cy]
			}
			switch a {
			case "up":
				cur.Move(true, len(results))
			case "down":
				cur.Move(false, len(results))
			case "toggle":
				if current >= 0 {
					sel.Toggle(current)
				}
			case "toggle+up", "toggle+down": // what the tab keys do: the order of selection is the order of the key presses
				if current >= 0 {
					sel.Toggle(current)
				}
				cur.Move(a == "toggle+up", len(results))
			case "select-all":
				sel.SelectAll(results)
			case "deselect":
				if current >= 0 && sel.Limit > 0 {
					sel.Deselect(current)
				}
			case "toggle-all":
				sel.ToggleAll(results)
			}
			history = append(history, "POST "+a)
			if code, err := s.Post(a); err != nil || code != 200 {
				t.Fatalf("POST %s answered %d %v\n%s", a, code, err, strings.Join(history, "\n"))
			}
			// wait for the selection count so that the actions do not overtake each other's time stamps
			if _, ok := s.WaitFor(0, func(st *Status) bool { return len(st.Selected) == 0 || true }); !ok {
				t.Fatalf("no answer after %s", a)
			}
			if st, ok := s.WaitFor(1000, func(st *Status) bool {
				return len(st.Selected) == sel.Count() && (len(results) == 0 || st.Position == cur.Cy)
			}); !ok {
				t.Fatalf("after %v: selection/position do not settle: %s", history, describe(st))
			}
		}
		// optionally the query is changed at the end so that nothing matches any more: what was
		// selected is still printed (status 0); without a selection nothing is (status 1)
		if rapid.IntRange(0, 3).Draw(t, "lastQueryMatchesNothing") == 0 {
			initQuery = "zzqzzqzz"
			history = append(history, "POST change-query("+initQuery+")")
			s.Post("change-query(" + initQuery + ")")
			if st, ok := s.WaitFor(10, func(st *Status) bool { return st.Query == initQuery && st.MatchCount == 0 }); !ok {
				t.Fatalf("after %v: the list does not become empty: %s", history, describe(st))
			}
			results = nil
		}
		endings := []string{"accept", "accept", "abort", "print-query"}
		if expect != "" {
			endings = append(endings, "expect-key", "expect-key")
		}
		end := rapid.SampledFrom(endings).Draw(t, "end")
		pressed := ""
		switch end {
		case "expect-key":
			pressed = strings.Split(expect, ",")[0]
			history = append(history, "press "+pressed)
			switch pressed {
			case "ctrl-x":
				s.SendHex([]byte{0x18})
			case "f5":
				s.SendKeys("F5")
			}
		default:
			history = append(history, "POST "+end)
			s.Post(end)
		}
		code, ok := s.WaitExit(20 * time.Second)
		if !ok {
			t.Fatalf("fzf did not exit\n%s\nscreen:\n%s", strings.Join(history, "\n"), strings.Join(s.Capture(), "\n"))
		}
		transform := func(i int) string {
			l := lines[i]
			if acceptNth == "" {
				return l
			}
			d := oracle.Delim{Kind: oracle.DelimStr, Str: fieldSep}
			var sb strings.Builder
			for _, e := range strings.Split(acceptNth, ",") {
				r, _ := oracle.ParseFieldRange(e)
				txt, _, _ := oracle.Select(oracle.Split(l, d), r)
				sb.WriteString(txt)
			}
			return oracle.StripLastDelim(sb.String(), d)
		}
		got := string(s.Stdout())
		var wantPrefix string
		wantCode := 0
		var wantItems [][]string // batches
		switch end {
		case "abort":
			wantCode = 130
		case "print-query":
			wantPrefix = initQuery + outsep
		default:
			if printQuery {
				wantPrefix += initQuery + outsep
			}
			if expect != "" {
				wantPrefix += pressed + outsep
			}
			if sel.Count() > 0 {
				for _, b := range sel.Batches {
					var bt []string
					for _, i := range b {
						bt = append(bt, transform(i))
					}
					wantItems = append(wantItems, bt)
				}
			} else if len(results) > 0 {
				wantItems = [][]string{{transform(results[cur.Cy])}}
			} else {
				wantCode = 1
			}
		}
		nopt := 0
		for _, b := range []bool{print0, printQuery, expect != "", acceptNth != "", sel.Count() > 1} {
			if b {
				nopt++
			}
		}
		vstat.Case("C07/proc-interactive", strings.Join(history, "|"), nopt >= 2, "end="+end, fmt.Sprintf("print0=%v", print0), "acceptNth="+acceptNth, fmt.Sprintf("selected=%d", imin(sel.Count(), 3)))
		if nopt >= 2 && vstat.WantSample("C07/proc-interactive") {
			vstat.Sample("C07/proc-interactive", map[string]interface{}{"history": history, "stdout": got, "status": code})
		}
		fail := func(why string) {
			t.Fatalf("%s\nstdout %q, exit status %d\nexpected prefix %q, items %q (batches: any order inside), exit status %d\nhistory:\n  %s", why, got, code, wantPrefix, wantItems, wantCode, strings.Join(history, "\n  "))
		}
		if code != wantCode {
			fail("wrong exit status")
		}
		if !strings.HasPrefix(got, wantPrefix) {
			fail("stdout does not start with the query / key lines")
		}
		rest := got[len(wantPrefix):]
		var gotItems []string
		if rest != "" {
			if !strings.HasSuffix(rest, outsep) {
				fail("last record is not terminated")
			}
			gotItems = strings.Split(strings.TrimSuffix(rest, outsep), outsep)
		}
		k := 0
		for _, b := range wantItems {
			need := map[string]int{}
			for _, x := range b {
				need[x]++
			}
			for range b {
				if k >= len(gotItems) {
					fail("too few records printed")
				}
				need[gotItems[k]]--
				k++
			}
			for _, v := range need {
				if v != 0 {
					fail("printed records are not the selection in selection order")
				}
			}
		}
		if k != len(gotItems) {
			fail("too many records printed")
		}
	})
}

func imin(a, b int) int {
	if a < b {
		return a
	}
	return b
}

// --select-1 / --exit-0: automatic accept or exit without starting the finder.
func TestVerifC07_ProcSelect1Exit0(t *testing.T) {
	rapid.Check(t, func(t *rapid.T) {
		lines := []string{"apple", "banana", "cherry", "date"}
		query := rapid.SampledFrom([]string{"pp", "zzz", "an", "e", "cherry"}).Draw(t, "query")
		select1 := rapid.Bool().Draw(t, "select1")
		exit0 := rapid.Bool().Draw(t, "exit0")
		printQuery := rapid.Bool().Draw(t, "printQuery")
		print0 := rapid.Bool().Draw(t, "print0")
		args := []string{"--query", query, "--no-mouse"}
		if select1 {
			args = append(args, "--select-1")
		}
		if exit0 {
			args = append(args, "--exit-0")
		}
		outsep := "\n"
		if printQuery {
			args = append(args, "--print-query")
		}
		if print0 {
			args = append(args, "--print0")
			outsep = "\x00"
		}
		var matches []string
		for _, l := range lines {
			if simpleFuzzy(query, l) {
				matches = append(matches, l)
			}
		}
		s := StartSession(t, SessionCfg{Args: args, Input: []byte(strings.Join(lines, "\n") + "\n"), Width: 60, Height: 10})
		defer s.Close()
		auto := select1 && len(matches) == 1 || exit0 && len(matches) == 0
		vstat.Case("C07/proc-select1-exit0", fmt.Sprint(args), auto, fmt.Sprintf("matches=%d", len(matches)))
		if auto {
			code, ok := s.WaitExit(20 * time.Second)
			if !ok {
				t.Fatalf("fzf %q with %d matches should have exited on its own; screen:\n%s", args, len(matches), strings.Join(s.Capture(), "\n"))
			}
			want := ""
			if printQuery {
				want += query + outsep
			}
			wantCode := 1
			if len(matches) == 1 {
				want += matches[0] + outsep
				wantCode = 0
			}
			if string(s.Stdout()) != want || code != wantCode {
				t.Fatalf("fzf %q (%d matches): stdout %q exit %d, expected %q exit %d", args, len(matches), s.Stdout(), code, want, wantCode)
			}
			return
		}
		// must start the finder instead
		if _, ok := s.WaitFor(10, func(st *Status) bool { return !st.Reading && st.MatchCount == len(matches) }); !ok {
			if code, exited := s.ExitStatus(); exited {
				t.Fatalf("fzf %q with %d matches exited on its own (status %d, stdout %q)", args, len(matches), code, s.Stdout())
			}
			t.Fatalf("fzf %q did not start: %s", args, strings.Join(s.Capture(), "\n"))
		}
		s.Post("abort")
		if code, ok := s.WaitExit(10 * time.Second); !ok || code != 130 {
			t.Fatalf("abort: exit %d %v", code, ok)
		}
	})
}
