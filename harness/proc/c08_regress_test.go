//go:build verif

package proc

import (
	"fmt"
	"os"
	"path/filepath"
	"strings"
	"syscall"
	"testing"
	"time"

	"verif.local/vstat"
)

// One-shot parts of a search request (new --nth, excluded items, reload
// command) must not be lost when another query change follows before the
// coordinator has picked the request up (it sleeps up to 100 ms per round
// while the input is still being read).
func TestVerifC08_OneShotRequests(t *testing.T) {
	lines := []string{"ab,zz 0", "zz,ab 1", "ab,ab 2", "zz,zz 3", "abab,zz 4"}
	type scenario struct {
		name  string
		first string // one-shot action
		then  string // query change sent right after
		check func(st *Status) string
	}
	reloadFile := filepath.Join(workDir, "c08-oneshot-reload.txt")
	os.WriteFile(reloadFile, []byte("ab,r 0\nzz,r 1\n"), 0o644)
	scenarios := []scenario{
		{"change-nth then put", "change-nth(1)", "put(ab)", func(st *Status) string {
			want := []string{"ab,zz 0", "ab,ab 2", "abab,zz 4"}
			return sameTexts(st, want)
		}},
		{"exclude then put", "exclude", "put(ab)", func(st *Status) string {
			// the pointer is on the first line ("ab,zz 0") when exclude arrives
			return sameTexts(st, []string{"zz,ab 1", "ab,ab 2", "abab,zz 4"})
		}},
		{"reload then put", "reload(cat " + reloadFile + ")", "put(ab)", func(st *Status) string {
			return sameTexts(st, []string{"ab,r 0"})
		}},
	}
	for _, sc := range scenarios {
		for trial := 0; trial < 14; trial++ {
			dir, _ := os.MkdirTemp(workDir, "oneshot")
			fifo := filepath.Join(dir, "in")
			if err := syscall.Mkfifo(fifo, 0o600); err != nil {
				infra(t, "mkfifo: %v", err)
			}
			s := StartSession(t, SessionCfg{Args: []string{"--no-mouse", "--no-sort", "--delimiter", ",", "--tiebreak=index"}, InputCmd: "cat " + shQuote(fifo), Width: 60, Height: 12})
			f, err := os.OpenFile(fifo, os.O_WRONLY, 0)
			if err != nil {
				s.Close()
				infra(t, "open fifo: %v", err)
			}
			f.WriteString(strings.Join(lines, "\n") + "\n")
			// input stays open: fzf keeps "reading" and its coordinator polls with growing delays
			if _, ok := s.WaitFor(10, func(st *Status) bool {
				return st.TotalCount == len(lines) && st.Current != nil && st.Current.Index == 0
			}); !ok {
				f.Close()
				s.Close()
				infra(t, "fzf did not load the input")
			}
			// keep data trickling in so that the coordinator goes through its polling
			// rounds (it sleeps up to 100 ms after each reader event while reading)
			stopFeed := make(chan struct{})
			fed := make(chan struct{})
			go func() {
				defer close(fed)
				for i := 0; ; i++ {
					select {
					case <-stopFeed:
						return
					default:
					}
					f.WriteString(fmt.Sprintf("zz,zz filler%d\n", i))
					time.Sleep(3 * time.Millisecond)
				}
			}()
			time.Sleep(time.Duration(300+trial*37) * time.Millisecond)
			c1, e1 := s.Post(sc.first)
			c2, e2 := s.Post(sc.then)
			close(stopFeed)
			<-fed
			if e1 != nil || e2 != nil || c1 != 200 || c2 != 200 {
				f.Close()
				s.Close()
				t.Fatalf("%s: POSTs answered %d %v / %d %v", sc.name, c1, e1, c2, e2)
			}
			time.Sleep(50 * time.Millisecond)
			f.Close() // end of input
			var why string
			st, ok := s.WaitFor(20, func(st *Status) bool {
				if st.Reading || st.Query != "ab" {
					return false
				}
				why = sc.check(st)
				return why == ""
			})
			vstat.Case("C08/one-shot-requests", fmt.Sprint(sc.name, trial), true, "scenario="+sc.name)
			s.Close()
			os.RemoveAll(dir)
			if !ok {
				t.Errorf("%s (trial %d): POST %q immediately followed by POST %q while the input was still open; after end of input the list is not the fresh filter: %s; state: %s", sc.name, trial, sc.first, sc.then, why, describe(st))
				break
			}
		}
	}
}

func sameTexts(st *Status, want []string) string {
	var got []string
	for _, m := range st.Matches {
		got = append(got, m.Text)
	}
	if strings.Join(got, "\n") != strings.Join(want, "\n") {
		return fmt.Sprintf("matches %q, expected %q", got, want)
	}
	return ""
}
