//go:build verif

package proc

import (
	"fmt"
	"os"
	"path/filepath"
	"strings"
	"syscall"
	"testing"
	"time"

	"pgregory.net/rapid"
	"verif.local/vstat"
)

// C08 (process level) - after any history of query edits, sort toggles,
// exclusions, nth changes and reloads, interleaved with input loading, the
// live match list converges to a fresh `fzf --filter` of the current query
// over the currently loaded input.

var c08Words = []string{"alpha", "beta", "a-b", "ab1", "x/y/ab", "b_a", "1.1", "bab", "zzz", "zzz", "zzz", "zzz", "zzz", "zzz", "Abc", "éa"}

func c08Lines(prefix string, n int, salt int) []string {
	lines := make([]string, n)
	for i := range lines {
		w := c08Words[(i*7+salt+i/13)%len(c08Words)]
		lines[i] = fmt.Sprintf("%s%s,%s %d", prefix, w, c08Words[(i+salt)%len(c08Words)], i)
	}
	return lines
}

func c08Session(t *rapid.T) {
	sizes := []int{30, 99, 100, 101, 450, 2500, 12000}
	if thorough() {
		sizes = append(sizes, 60000, 250000)
	}
	n := rapid.SampledFrom(sizes).Draw(t, "nlines")
	lines := c08Lines("", n, rapid.IntRange(0, 5).Draw(t, "salt"))
	var margs []string // options shared with the reference filter run
	if tb := rapid.SampledFrom([]string{"", "", "index", "length,begin", "end", "chunk"}).Draw(t, "tiebreak"); tb != "" {
		margs = append(margs, "--tiebreak="+tb)
	}
	if rapid.IntRange(0, 3).Draw(t, "tac") == 0 {
		margs = append(margs, "--tac")
	}
	if rapid.IntRange(0, 3).Draw(t, "exact") == 0 {
		margs = append(margs, "--exact")
	}
	if rapid.IntRange(0, 3).Draw(t, "noExtended") == 0 {
		// the query is one term, blanks included
		margs = append(margs, "+x")
	}
	margs = append(margs, "--delimiter", ",")
	startNth := rapid.SampledFrom([]string{"", "1", "2.."}).Draw(t, "startNth")
	sessDirFifo := ""
	// the input arrives through a FIFO that the harness feeds in bursts
	fifoDir, err := os.MkdirTemp(workDir, "fifo")
	if err != nil {
		infra(t, "%v", err)
	}
	defer os.RemoveAll(fifoDir)
	sessDirFifo = filepath.Join(fifoDir, "in")
	if err := syscall.Mkfifo(sessDirFifo, 0o600); err != nil {
		infra(t, "mkfifo: %v", err)
	}
	reloadFile := filepath.Join(fifoDir, "reload.txt")
	reloadLines := c08Lines("r-", rapid.SampledFrom([]int{0, 5, 100, 350}).Draw(t, "reloadN"), 3)
	os.WriteFile(reloadFile, []byte(strings.Join(reloadLines, "\n")+"\n"), 0o644)
	if len(reloadLines) == 0 {
		os.WriteFile(reloadFile, nil, 0o644)
	}
	// a second reload source with exactly as many lines as the initial input
	sameFile := filepath.Join(fifoDir, "reload-same-size.txt")
	sameLines := c08Lines("s-", n, 1)
	os.WriteFile(sameFile, []byte(strings.Join(sameLines, "\n")+"\n"), 0o644)

	startArgs := append([]string{"--no-mouse"}, margs...)
	if startNth != "" {
		startArgs = append(startArgs, "--nth", startNth)
	}
	s := StartSession(t, SessionCfg{Args: startArgs, InputCmd: "cat " + shQuote(sessDirFifo), Width: 70, Height: 20})
	defer s.Close()

	// feeder
	nbursts := rapid.IntRange(1, 6).Draw(t, "bursts")
	gaps := rapid.SliceOfN(rapid.IntRange(0, 30), nbursts, nbursts).Draw(t, "burstGapsMs")
	feedDone := make(chan error, 1)
	go func() {
		f, err := os.OpenFile(sessDirFifo, os.O_WRONLY, 0)
		if err != nil {
			feedDone <- err
			return
		}
		defer f.Close()
		per := (len(lines) + nbursts - 1) / nbursts
		for b := 0; b < nbursts; b++ {
			lo, hi := b*per, (b+1)*per
			if lo > len(lines) {
				lo = len(lines)
			}
			if hi > len(lines) {
				hi = len(lines)
			}
			if hi > lo {
				if _, err := f.WriteString(strings.Join(lines[lo:hi], "\n") + "\n"); err != nil {
					feedDone <- err
					return
				}
			}
			time.Sleep(time.Duration(gaps[b]) * time.Millisecond)
		}
		feedDone <- nil
	}()

	// model
	query := ""
	sortOn := true
	nth := startNth
	loaded := lines
	excluded := map[string]bool{}
	history := []string{fmt.Sprintf("fzf %s  (%d lines in %d bursts)", strings.Join(startArgs, " "), n, nbursts)}
	duringRead := false
	labels := map[string]bool{}
	reference := func() []string {
		args := append([]string{}, margs...)
		if !sortOn {
			args = append(args, "--no-sort")
		}
		if nth != "" {
			args = append(args, "--nth", nth)
		}
		var in []string
		for _, l := range loaded {
			if !excluded[l] {
				in = append(in, l)
			}
		}
		input := ""
		if len(in) > 0 {
			input = strings.Join(in, "\n") + "\n"
		}
		out, _ := runFilterProc(t, append(args, "--filter", query), []byte(input), nil)
		if len(out) == 0 {
			return nil
		}
		return strings.Split(strings.TrimSuffix(string(out), "\n"), "\n")
	}
	expectTotal := func() int {
		return len(loaded) // excluded items stay loaded; they are only hidden from the matches
	}
	converge := func(step string) *Status {
		want := reference()
		lim := len(want)
		if lim > 4000 {
			lim = 4000
		}
		pred := func(st *Status) bool {
			if st.Reading || st.Query != query || st.MatchCount != len(want) || st.Sort != sortOn || st.TotalCount != expectTotal() {
				return false
			}
			if len(st.Matches) < lim {
				return false
			}
			for i := 0; i < lim; i++ {
				if st.Matches[i].Text != want[i] {
					return false
				}
			}
			return true
		}
		st, ok := s.WaitFor(lim+1, pred)
		if !ok {
			if pt := s.panicText(); pt != "" {
				t.Fatalf("fzf crashed (%s)\nhistory:\n  %s\n%s", step, strings.Join(history, "\n  "), pt)
			}
			first := "(none)"
			if st == nil && s.Alive() {
				first = "fzf is alive but does not answer; goroutines:\n" + s.GoroutineDump()
			}
			if st != nil {
				k := 0
				for k < len(st.Matches) && k < len(want) && st.Matches[k].Text == want[k] {
					k++
				}
				first = fmt.Sprintf("first difference at rank %d: shown %q, fresh filter %q", k, matchAt(st, k), at(want, k))
			}
			t.Fatalf("%s: the session is quiescent but the match list is not the fresh filter of the current query\nexpected: query %q, sort=%v, nth=%q, %d of %d lines\nobserved: %s\n%s\nhistory:\n  %s",
				step, query, sortOn, nth, len(want), expectTotal(), describe(st), first, strings.Join(history, "\n  "))
		}
		return st
	}

	nsteps := rapid.IntRange(2, 14).Draw(t, "steps")
	reloaded := false
	for i := 0; i < nsteps; i++ {
		op := rapid.SampledFrom([]string{"put", "put", "put", "backspace", "change-query", "clear", "toggle-sort", "exclude", "change-nth", "change-nth", "nth-there-and-back", "reload", "reload", "burst-of-edits", "settle", "blank-at-the-end", "blank-at-the-end"}).Draw(t, "op")
		delay := time.Duration(rapid.IntRange(0, 30).Draw(t, "delayMs")) * time.Millisecond
		body := ""
		switch op {
		case "put":
			c := rapid.SampledFrom([]string{"a", "b", "1", "z", "A", " ", " ", "'", "^", "!", "|", "-", "\\"}).Draw(t, "ch")
			query += c
			body = "put(" + c + ")"
		case "backspace":
			if r := []rune(query); len(r) > 0 {
				query = string(r[:len(r)-1])
			}
			body = "end-of-line+backward-delete-char"
		case "change-query":
			query = rapid.SampledFrom([]string{"a", "ab", "b", "zzz 1", "^a", "a$", "'ab", "!zzz", "!zzz !a", "a | b", "1", "A", "bab 1", "alpha ,b"}).Draw(t, "q")
			body = "change-query(" + query + ")"
		case "clear":
			query = ""
			body = "clear-query"
		case "toggle-sort":
			sortOn = !sortOn
			body = "toggle-sort"
			labels["sort_toggle"] = true
		case "change-nth":
			nth = rapid.SampledFrom([]string{"1", "2", "..", "2.."}).Draw(t, "nth")
			if startNth != "" && rapid.IntRange(0, 2).Draw(t, "backToStart") == 0 {
				nth = startNth // back to the value given on the command line
			}
			body = "change-nth(" + nth + ")"
			labels["change_nth"] = true
		case "nth-there-and-back":
			// to another field expression and back to the one in force before (the initial one included)
			prev := nth
			if prev == "" {
				prev = ".."
			}
			other := rapid.SampledFrom([]string{"1", "2", "2.."}).Draw(t, "otherNth")
			if other == prev {
				other = ".."
			}
			if code, err := s.Post("change-nth(" + other + ")"); err != nil || code != 200 {
				t.Fatalf("POST change-nth answered %d (%v)\nhistory:\n  %s", code, err, strings.Join(history, "\n  "))
			}
			history = append(history, "POST change-nth("+other+")")
			time.Sleep(time.Duration(rapid.IntRange(0, 40).Draw(t, "backDelayMs")) * time.Millisecond)
			nth = prev
			body = "change-nth(" + prev + ")"
			labels["change_nth"] = true
		case "burst-of-edits":
			// several edits without waiting in between
			k := rapid.IntRange(2, 5).Draw(t, "burstLen")
			for j := 0; j < k; j++ {
				c := rapid.SampledFrom([]string{"a", "b", "1", "z"}).Draw(t, "ch")
				query += c
				if code, err := s.Post("put(" + c + ")"); err != nil || code != 200 {
					t.Fatalf("POST put answered %d (%v)\nhistory:\n  %s", code, err, strings.Join(history, "\n  "))
				}
				history = append(history, "POST put("+c+")")
			}
		case "reload":
			// reload needs a settled reader, otherwise which input ends up loaded depends on timing
			<-feedDone
			feedDone <- nil
			converge("before reload")
			sync := rapid.Bool().Draw(t, "sync")
			src, srcLines := reloadFile, reloadLines
			if rapid.Bool().Draw(t, "sameSize") {
				src, srcLines = sameFile, sameLines
				labels["reload_same_size"] = true
			}
			cmd := "cat " + src
			if rapid.Bool().Draw(t, "slowReload") && len(srcLines) >= 5 {
				// the new input arrives in two instalments
				k := len(srcLines) * 2 / 5
				cmd = fmt.Sprintf("head -n %d %s; sleep 0.3; tail -n +%d %s", k, src, k+1, src)
				labels["reload_slow"] = true
			}
			body = "reload(" + cmd + ")"
			if sync {
				body = "reload-sync(" + cmd + ")"
			}
			loaded = srcLines
			excluded = map[string]bool{}
			reloaded = true
			labels["reload"] = true
			if !sync && rapid.IntRange(0, 1).Draw(t, "excludeWhileReloading") == 0 {
				// an exclude issued after the reload has been accepted, while the old list is still
				// displayed, refers to the old list: it must not remove anything from the new one
				cmd = "sleep 0.25; " + cmd
				for _, b := range []string{"reload(" + cmd + ")", "exclude"} {
					if code, err := s.Post(b); err != nil || code != 200 {
						t.Fatalf("POST %s answered %d (%v)\nhistory:\n  %s", b, code, err, strings.Join(history, "\n  "))
					}
					history = append(history, "POST "+b)
					time.Sleep(time.Duration(rapid.SampledFrom([]int{20, 60, 120}).Draw(t, "excludeAfterMs")) * time.Millisecond)
				}
				body = ""
				labels["exclude_while_reloading"] = true
			}
		case "exclude":
			<-feedDone
			feedDone <- nil
			st := converge("before exclude")
			if st.Current != nil {
				excluded[st.Current.Text] = true
				body = "exclude"
				labels["exclude"] = true
			}
		case "settle":
			<-feedDone
			feedDone <- nil
			converge("settle")
		case "blank-at-the-end":
			// the list is settled, then only the blanks at the end of the query change (a blank is typed
			// before the next term, or taken back): the list is that of the new query all the same
			<-feedDone
			feedDone <- nil
			converge("before the blank")
			if strings.HasSuffix(query, " ") && rapid.Bool().Draw(t, "takeBack") {
				query = query[:len(query)-1]
				body = "end-of-line+backward-delete-char"
			} else {
				query += " "
				body = "end-of-line+put( )"
			}
			if code, err := s.Post(body); err != nil || code != 200 {
				t.Fatalf("POST %s answered %d (%v)\nhistory:\n  %s", body, code, err, strings.Join(history, "\n  "))
			}
			history = append(history, "POST "+body)
			body = ""
			labels["blank_at_the_end"] = true
			converge("after the blank")
		}
		if body != "" {
			code, err := s.Post(body)
			history = append(history, "POST "+body)
			if err != nil || code != 200 {
				if pt := s.panicText(); pt != "" {
					t.Fatalf("fzf crashed on POST %q\nhistory:\n  %s\n%s", body, strings.Join(history, "\n  "), pt)
				}
				t.Fatalf("POST %q answered %d (%v)\nhistory:\n  %s", body, code, err, strings.Join(history, "\n  "))
			}
			if st, err := s.Get(0, 0); err == nil && st.Reading {
				duringRead = true
			}
		}
		time.Sleep(delay)
	}
	if err := <-feedDone; err != nil {
		infra(t, "feeding the FIFO failed: %v", err)
	}
	history = append(history, "end of input")
	converge("end of history")
	_ = reloaded
	nt := duringRead && n >= 100
	var ls []string
	for k := range labels {
		ls = append(ls, k)
	}
	ls = append(ls, fmt.Sprintf("lines=%d", n), fmt.Sprintf("edit_while_reading=%v", duringRead))
	vstat.Case("C08/proc-session", strings.Join(history, "|"), nt, ls...)
	if nt && vstat.WantSample("C08/proc-session") {
		vstat.Sample("C08/proc-session", history)
	}
}

func matchAt(st *Status, k int) string {
	if st != nil && k < len(st.Matches) {
		return st.Matches[k].Text
	}
	return "<end>"
}

func at(s []string, k int) string {
	if k < len(s) {
		return s[k]
	}
	return "<end>"
}

func TestVerifC08_ProcSessions(t *testing.T) {
	rapid.Check(t, c08Session)
}
