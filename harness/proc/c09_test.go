//go:build verif

package proc

import (
	"fmt"
	"os"
	"strings"
	"testing"
	"time"

	"pgregory.net/rapid"
	"verif.local/oracle"
	"verif.local/vstat"
)

// C09 - query line, cursor and selection evolve exactly as the actions
// prescribe. One fzf per case; every step POSTs 1-3 chained actions and then
// waits for the state the model predicts.

type uiModel struct {
	ed         oracle.Editor
	cur        oracle.ListCursor
	sel        oracle.Selection
	lines      []string
	args       []string // options that influence matching/ordering
	results    []int    // indices into lines for the current query
	track      bool
	maxItems   int
	resultsFor map[string][]int
	t          fataler
	pending    []func()
	lenientPos bool
}

func (m *uiModel) query() string { return m.ed.String() }

// computeResults asks a fresh `fzf --filter` for the result list of a query
// (lines are distinct, so texts identify items).
func (m *uiModel) computeResults(q string) []int {
	if r, ok := m.resultsFor[q]; ok {
		return r
	}
	out, _ := runFilterProc(m.t, append(append([]string{}, m.args...), "--filter", q), []byte(strings.Join(m.lines, "\n")+"\n"), nil)
	idx := map[string]int{}
	for i, l := range m.lines {
		idx[l] = i
	}
	var res []int
	if len(m.lines) > 0 {
		for _, l := range strings.Split(strings.TrimSuffix(string(out), "\n"), "\n") {
			if l == "" && len(out) == 0 {
				continue
			}
			if i, ok := idx[l]; ok {
				res = append(res, i)
			}
		}
	}
	m.resultsFor[q] = res
	return res
}

func (m *uiModel) refresh() (changed bool) {
	nr := m.computeResults(m.query())
	changed = fmt.Sprint(nr) != fmt.Sprint(m.results)
	var tracked = -1
	if m.track && len(m.results) > 0 && m.cur.Cy < len(m.results) {
		tracked = m.results[m.cur.Cy]
	}
	m.results = nr
	m.lenientPos = false
	if changed && m.track {
		for i, r := range nr {
			if r == tracked {
				m.cur.Cy = i
				return
			}
		}
		// the tracked item vanished (or there was none): under-specified, any valid position
		m.lenientPos = true
	}
	return
}

func (m *uiModel) current() int {
	if len(m.results) == 0 {
		return -1
	}
	cy := m.cur.Cy
	if cy >= len(m.results) {
		cy = len(m.results) - 1
	}
	return m.results[cy]
}

var editActions = []string{"backward-char", "forward-char", "beginning-of-line", "end-of-line", "backward-word", "forward-word", "backward-delete-char", "delete-char",
	"backward-kill-word", "unix-word-rubout", "kill-word", "kill-line", "unix-line-discard", "yank", "yank", "clear-query"}
var navActions = []string{"up", "down", "up", "down", "first", "last", "page-up", "page-down", "half-page-up", "half-page-down"}
var selActions = []string{"toggle", "toggle", "toggle-down", "toggle-up", "select", "deselect", "select-all", "deselect-all", "toggle-all", "clear-selection", "toggle-in", "toggle-out", "next-selected", "prev-selected"}
var c09QueryAlpha = []rune("ab1 -_/.é")

// genAction draws one action, applies it to the model and returns its spelling.
func (m *uiModel) genAction(t *rapid.T, classes map[string]bool) string {
	class := rapid.SampledFrom([]string{"put", "put", "edit", "edit", "nav", "nav", "sel", "sel", "change-query", "pos", "put-from-current", "hidden-input", "kill-edit-yank"}).Draw(t, "class")
	if class == "kill-edit-yank" {
		// what was killed is kept as it was, whatever is done to the query line before it is yanked back
		var acts []string
		apply := func(a, arg string) {
			m.ed.Apply(a, arg)
			if arg != "" {
				acts = append(acts, a+"("+arg+")")
			} else {
				acts = append(acts, a)
			}
		}
		apply(rapid.SampledFrom([]string{"backward-char", "backward-word", "beginning-of-line", "backward-char"}).Draw(t, "moveBeforeKill"), "")
		apply(rapid.SampledFrom([]string{"kill-line", "kill-line", "kill-word", "backward-kill-word", "unix-line-discard", "unix-word-rubout"}).Draw(t, "kill"), "")
		for i, n := 0, rapid.IntRange(1, 3).Draw(t, "editsBeforeYank"); i < n; i++ {
			switch e := rapid.SampledFrom([]string{"backward-char", "put", "put", "backward-delete-char", "forward-char", "beginning-of-line"}).Draw(t, "editBeforeYank"); e {
			case "put":
				apply("put", string(rapid.SliceOfN(rapid.SampledFrom(c09QueryAlpha), 1, 3).Draw(t, "text")))
			default:
				apply(e, "")
			}
		}
		apply("yank", "")
		classes["edit"], classes["killyank"] = true, true
		return strings.Join(acts, "+")
	}
	if class == "hidden-input" {
		// the input section is hidden for a while ("you can no longer type in queries"): whatever
		// editing action runs meanwhile, the query is the same when the section is shown again.
		// Where the cursor is then is not documented: it is put at the end afterwards.
		var acts []string
		if mv := rapid.SampledFrom([]string{"", "beginning-of-line", "backward-char", "backward-word", "forward-char"}).Draw(t, "moveBefore"); mv != "" {
			m.ed.Apply(mv, "")
			acts = append(acts, mv)
		}
		acts = append(acts, rapid.SampledFrom([]string{"hide-input", "toggle-input"}).Draw(t, "hide"))
		for i, n := 0, rapid.IntRange(1, 3).Draw(t, "hiddenEdits"); i < n; i++ {
			a := rapid.SampledFrom([]string{"delete-char", "backward-delete-char", "put(z)", "put(xy)", "backward-char", "forward-char", "beginning-of-line", "change-query(q)", "clear-query"}).Draw(t, "hiddenEdit")
			acts = append(acts, a)
		}
		acts = append(acts, rapid.SampledFrom([]string{"show-input", "toggle-input"}).Draw(t, "show"), "end-of-line")
		m.ed.Apply("end-of-line", "")
		classes["edit"] = true
		return strings.Join(acts, "+")
	}
	if class == "put-from-current" {
		// a query edit that is likely to keep the current line in the list (what --track is about):
		// append a character of that line (chosen against the list as it is before this POST)
		class = "put"
		if cur := m.current(); cur >= 0 {
			rs := []rune(m.lines[cur])
			r := rs[rapid.IntRange(0, len(rs)-1).Draw(t, "charOfCurrent")]
			if r != ' ' && r != '\'' && r != '^' && r != '$' && r != '!' && r != '|' && r != '(' && r != ')' {
				m.ed.Apply("end-of-line", "")
				m.ed.Apply("put", string(r))
				classes["edit"] = true
				return "end-of-line+put(" + string(r) + ")"
			}
		}
	}
	switch class {
	case "put":
		s := string(rapid.SliceOfN(rapid.SampledFrom(c09QueryAlpha), 1, 3).Draw(t, "text"))
		m.ed.Apply("put", s)
		classes["edit"] = true
		return "put(" + s + ")"
	case "change-query":
		s := string(rapid.SliceOfN(rapid.SampledFrom(c09QueryAlpha), 0, 4).Draw(t, "text"))
		s = strings.TrimSpace(s) // leading/trailing blanks are kept by fzf; keep the alphabet simple
		m.ed.Apply("change-query", s)
		classes["edit"] = true
		return "change-query(" + s + ")"
	case "edit":
		a := rapid.SampledFrom(editActions).Draw(t, "edit")
		m.ed.Apply(a, "")
		if strings.Contains(a, "kill") || strings.Contains(a, "word") || a == "yank" || strings.Contains(a, "discard") || strings.Contains(a, "rubout") {
			classes["killyank"] = true
		}
		return a
	case "pos":
		n := rapid.IntRange(-5, 12).Draw(t, "pos")
		m.pending = append(m.pending, func() { m.cur.Pos(n, len(m.results)) })
		classes["nav"] = true
		return fmt.Sprintf("pos(%d)", n)
	case "nav":
		a := rapid.SampledFrom(navActions).Draw(t, "nav")
		classes["nav"] = true
		m.pending = append(m.pending, func() {
			n := len(m.results)
			switch a {
			case "up":
				m.cur.Move(true, n)
			case "down":
				m.cur.Move(false, n)
			case "first":
				m.cur.Set(0, n)
			case "last":
				m.cur.Set(n-1, n)
			case "page-up":
				m.cur.Page(true, false, m.maxItems, n)
			case "page-down":
				m.cur.Page(false, false, m.maxItems, n)
			case "half-page-up":
				m.cur.Page(true, true, m.maxItems, n)
			case "half-page-down":
				m.cur.Page(false, true, m.maxItems, n)
			}
		})
		return a
	default:
		a := rapid.SampledFrom(selActions).Draw(t, "sel")
		classes["sel"] = true
		m.pending = append(m.pending, func() { m.applySel(a) })
		return a
	}
}

func (m *uiModel) applySel(a string) {
	n := len(m.results)
	cur := m.current()
	if a == "toggle-down" {
		a = "toggle+down"
	} else if a == "toggle-up" {
		a = "toggle+up"
	}
	if a == "toggle-in" {
		if m.cur.Reverse {
			a = "toggle-up"
		} else {
			a = "toggle-down"
		}
	} else if a == "toggle-out" {
		if m.cur.Reverse {
			a = "toggle-down"
		} else {
			a = "toggle-up"
		}
	}
	switch a {
	case "toggle":
		if cur >= 0 {
			m.sel.Toggle(cur)
		}
	case "toggle-down", "toggle-up":
		// toggle-in / toggle-out: the pointer moves only if something was toggled
		if m.sel.Limit > 0 && cur >= 0 && m.sel.Toggle(cur) {
			m.cur.Move(a == "toggle-up", n)
		}
	case "toggle+down", "toggle+up":
		// the bindable names toggle-down / toggle-up are shorthands for toggle+down / toggle+up
		if cur >= 0 {
			m.sel.Toggle(cur)
		}
		m.cur.Move(a == "toggle+up", n)
	case "select":
		if cur >= 0 {
			m.sel.Select(cur)
		}
	case "deselect":
		if cur >= 0 && m.sel.Limit > 0 {
			m.sel.Deselect(cur)
		}
	case "select-all":
		m.sel.SelectAll(m.results)
	case "deselect-all":
		m.sel.DeselectAll(m.results)
	case "toggle-all":
		m.sel.ToggleAll(m.results)
	case "clear-selection":
		if m.sel.Limit > 0 {
			m.sel.Clear()
		}
	case "next-selected", "prev-selected":
		// the pointer goes to the nearest selected line below (next) / above (prev) on
		// the screen, wrapping around; it stays when no other result is selected
		if m.sel.Count() > 0 && n > 0 {
			towardsZero := !m.cur.Reverse && a == "next-selected" || m.cur.Reverse && a == "prev-selected"
			for i := 1; i < n; i++ {
				y := (m.cur.Cy + i) % n
				if towardsZero {
					y = (m.cur.Cy - i + n) % n
				}
				if m.sel.Has(m.results[y]) {
					m.cur.Cy = y
					break
				}
			}
		}
	}
}

func c09Session(t *rapid.T) {
	n := rapid.SampledFrom([]int{0, 1, 2, 5, 12, 30, 60}).Draw(t, "nlines")
	words := []string{"alpha", "beta", "a-b", "ab1", "x/y/ab", "b_a", "1.1", "é-a", "bab", "zzz"}
	lines := make([]string, n)
	for i := range lines {
		lines[i] = fmt.Sprintf("%s %02d", words[i%len(words)], i)
	}
	height := rapid.IntRange(4, 30).Draw(t, "height")
	layout := rapid.SampledFrom([]string{"default", "reverse", "reverse-list"}).Draw(t, "layout")
	multi := rapid.SampledFrom([]string{"off", "1", "2", "3", "unlimited"}).Draw(t, "multi")
	cycle := rapid.Bool().Draw(t, "cycle")
	track := rapid.IntRange(0, 2).Draw(t, "track") == 0
	fileword := rapid.IntRange(0, 3).Draw(t, "filepathWord") == 0
	info := rapid.SampledFrom([]string{"default", "default", "inline", "hidden"}).Draw(t, "info")
	sorted := rapid.Bool().Draw(t, "sorted")
	tac := rapid.IntRange(0, 2).Draw(t, "tac") == 0

	m := &uiModel{lines: lines, track: track, resultsFor: map[string][]int{}, t: t}
	margs := []string{}
	if !sorted {
		margs = append(margs, "--no-sort")
	}
	if tac {
		margs = append(margs, "--tac")
	}
	m.args = margs
	args := append([]string{}, margs...)
	args = append(args, "--layout="+layout, "--info="+info, "--no-mouse")
	switch multi {
	case "off":
	case "unlimited":
		args = append(args, "--multi")
		m.sel.Limit = 1 << 30
	default:
		args = append(args, "--multi="+multi)
		fmt.Sscanf(multi, "%d", &m.sel.Limit)
	}
	if cycle {
		args = append(args, "--cycle")
		m.cur.Cycle = true
	}
	if track {
		args = append(args, "--track")
	}
	if fileword {
		args = append(args, "--filepath-word")
		m.ed.FileWord = true
	}
	m.cur.Reverse = layout != "default"
	// rows left for the list: the prompt line and (unless the info is shown inline) the
	// info/separator line are taken from the window height
	m.maxItems = height - 2
	if info == "inline" {
		m.maxItems = height - 1
	}
	input := []byte{}
	if n > 0 {
		input = []byte(strings.Join(lines, "\n") + "\n")
	}
	s := StartSession(t, SessionCfg{Args: args, Input: input, Width: 60, Height: height})
	defer s.Close()
	m.refresh()
	history := []string{fmt.Sprintf("fzf %s  (%d lines, window 60x%d)", strings.Join(args, " "), n, height)}
	check := func(step string) {
		t0 := time.Now()
		defer func() {
			if os.Getenv("VERIF_DEBUG") != "" {
				fmt.Fprintf(os.Stderr, "step %-40q %v\n", step, time.Since(t0))
			}
		}()
		wantQ := m.query()
		want := m.results
		pred := func(st *Status) bool {
			if st.Reading || st.Query != wantQ || st.MatchCount != len(want) || st.TotalCount != len(lines) {
				return false
			}
			if len(want) == 0 {
				return st.Current == nil && len(st.Selected) == m.sel.Count()
			}
			if st.Current == nil || st.Position < 0 || st.Position >= len(want) {
				return false
			}
			if st.Current.Index != want[st.Position] {
				return false
			}
			if !m.lenientPos && st.Position != m.expectedPos() {
				return false
			}
			var got []int
			for _, it := range st.Selected {
				got = append(got, it.Index)
			}
			return m.sel.Matches(got)
		}
		st, ok := s.WaitFor(1000, pred)
		if !ok {
			if pt := s.panicText(); pt != "" {
				t.Fatalf("fzf crashed after %s\nhistory: %s\n%s", step, strings.Join(history, "\n  "), pt)
			}
			if !s.Alive() {
				code, _ := s.ExitStatus()
				t.Fatalf("fzf exited (status %d) after %s\nhistory:\n  %s", code, step, strings.Join(history, "\n  "))
			}
			t.Fatalf("after %s the state does not become what the actions prescribe\nexpected: query %q, %d matches, position %d (item #%d), selection %v\nobserved: %s\nscreen:\n%s\nhistory:\n  %s",
				step, wantQ, len(want), m.expectedPos(), m.current(), m.sel.Batches, describe(st), strings.Join(s.Capture(), "\n"), strings.Join(history, "\n  "))
		}
		// under-specified corner (tracked item vanished, lazy clamp): adopt the observed valid position
		// (with an empty list fzf reports -1 after a move; the pointer designates nothing then)
		m.cur.Cy = st.Position
		if m.cur.Cy < 0 {
			m.cur.Cy = 0
		}
	}
	// with --track the pointer follows the item that was current while the list was
	// loading: any valid position is accepted at start
	m.lenientPos = track
	check("start")
	m.lenientPos = false
	nsteps := rapid.IntRange(5, 40).Draw(t, "steps")
	classes := map[string]bool{}
	resultChanges := 0
	for i := 0; i < nsteps; i++ {
		k := rapid.IntRange(1, 3).Draw(t, "chain")
		var acts []string
		m.pending = nil
		typed := ""
		if rapid.IntRange(0, 9).Draw(t, "typed") == 0 {
			// type characters on the keyboard instead of POSTing
			typed = string(rapid.SliceOfN(rapid.SampledFrom([]rune("ab1-")), 1, 3).Draw(t, "keys"))
			m.ed.Apply("put", typed)
			classes["edit"] = true
			history = append(history, fmt.Sprintf("type %q", typed))
			// posted actions and key presses travel on different channels: make sure the
			// posted ones were executed before the keys are sent
			if !s.Drain() {
				if pt := s.panicText(); pt != "" {
					t.Fatalf("fzf crashed\nhistory:\n  %s\n%s", strings.Join(history, "\n  "), pt)
				}
				infra(t, "posted actions were not executed within 20 s (alive=%v)", s.Alive())
			}
			s.SendLiteral(typed)
			if m.refresh() {
				resultChanges++
			}
			m.clampAfterChange()
			check(fmt.Sprintf("typing %q", typed))
			continue
		}
		for j := 0; j < k; j++ {
			before := m.query()
			a := m.genAction(t, classes)
			acts = append(acts, a)
			// actions of one POST run in one go: list-dependent actions see the result
			// list as it was when the POST arrived (the new search has not run yet)
			_ = before
		}
		body := strings.Join(acts, "+")
		history = append(history, "POST "+body)
		// list/selection actions were queued; apply them against the old result list in order
		for _, f := range m.pending {
			f()
		}
		code, err := s.Post(body)
		if err != nil || code != 200 {
			if pt := s.panicText(); pt != "" {
				t.Fatalf("fzf crashed on POST %q\nhistory:\n  %s\n%s", body, strings.Join(history, "\n  "), pt)
			}
			t.Fatalf("POST %q answered %d (%v); alive=%v\nhistory:\n  %s", body, code, err, s.Alive(), strings.Join(history, "\n  "))
		}
		if m.refresh() {
			resultChanges++
		}
		m.clampAfterChange()
		check("POST " + body)
	}
	// terminal action
	end := rapid.SampledFrom([]string{"accept", "accept", "abort", "print-query"}).Draw(t, "end")
	history = append(history, "POST "+end)
	s.Post(end)
	code, ok := s.WaitExit(20 * time.Second)
	nt := classes["killyank"] && classes["sel"] && resultChanges > 0
	vstat.Case("C09/session", strings.Join(history, "|"), nt, "layout="+layout, "multi="+multi, fmt.Sprintf("cycle=%v", cycle), fmt.Sprintf("track=%v", track), "end="+end, fmt.Sprintf("lines=%d", n))
	if nt && vstat.WantSample("C09/session") {
		vstat.Sample("C09/session", history)
	}
	if !ok {
		t.Fatalf("fzf did not exit after %s\nhistory:\n  %s", end, strings.Join(history, "\n  "))
	}
	out := string(s.Stdout())
	switch end {
	case "abort":
		if code != 130 || out != "" {
			t.Fatalf("abort: exit status %d, stdout %q (expected 130 and nothing)\nhistory:\n  %s", code, out, strings.Join(history, "\n  "))
		}
	case "print-query":
		if code != 0 || out != m.query()+"\n" {
			t.Fatalf("print-query: exit status %d, stdout %q (expected 0 and %q)\nhistory:\n  %s", code, out, m.query()+"\n", strings.Join(history, "\n  "))
		}
	case "accept":
		var gotLines []string
		if out != "" {
			gotLines = strings.Split(strings.TrimSuffix(out, "\n"), "\n")
		}
		if m.sel.Count() > 0 {
			var got []int
			idx := map[string]int{}
			for i, l := range lines {
				idx[l] = i
			}
			for _, l := range gotLines {
				i, ok := idx[l]
				if !ok {
					t.Fatalf("accept printed %q which is not an input line\nhistory:\n  %s", l, strings.Join(history, "\n  "))
				}
				got = append(got, i)
			}
			if code != 0 || !m.sel.Matches(got) {
				t.Fatalf("accept: exit status %d, printed items %v, expected the selection %v in selection order\nhistory:\n  %s", code, got, m.sel.Batches, strings.Join(history, "\n  "))
			}
		} else if cur := m.current(); cur >= 0 {
			if code != 0 || len(gotLines) != 1 || gotLines[0] != lines[cur] {
				t.Fatalf("accept: exit status %d, stdout %q, expected the current line %q\nhistory:\n  %s", code, out, lines[cur], strings.Join(history, "\n  "))
			}
		} else if code != 1 || out != "" {
			t.Fatalf("accept on an empty list: exit status %d, stdout %q (expected 1 and nothing)\nhistory:\n  %s", code, out, strings.Join(history, "\n  "))
		}
	}
	if pt := s.panicText(); pt != "" {
		t.Fatalf("panic output at exit\nhistory:\n  %s\n%s", strings.Join(history, "\n  "), pt)
	}
}

func describe(st *Status) string {
	if st == nil {
		return "<no answer from GET>"
	}
	cur := "none"
	if st.Current != nil {
		cur = fmt.Sprintf("#%d %q", st.Current.Index, st.Current.Text)
	}
	var sel []int
	for _, it := range st.Selected {
		sel = append(sel, it.Index)
	}
	return fmt.Sprintf("query %q, %d/%d matches, position %d, current %s, selection %v, reading=%v", st.Query, st.MatchCount, st.TotalCount, st.Position, cur, sel, st.Reading)
}

func TestVerifC09_Sessions(t *testing.T) {
	rapid.Check(t, c09Session)
}

// expectedPos: the pointer is clamped to the list.
func (m *uiModel) expectedPos() int {
	if len(m.results) == 0 {
		return 0
	}
	if m.cur.Cy >= len(m.results) {
		return len(m.results) - 1
	}
	return m.cur.Cy
}

// clampAfterChange: after the result list changed the pointer stays where it
// was numerically and is clamped to the new list.
func (m *uiModel) clampAfterChange() {
	if len(m.results) == 0 {
		m.cur.Cy = 0
		return
	}
	if m.cur.Cy >= len(m.results) {
		m.cur.Cy = len(m.results) - 1
	}
}
