//go:build verif

package proc

import (
	"fmt"
	"sort"
	"strings"
	"testing"

	"pgregory.net/rapid"
	"verif.local/oracle"
	"verif.local/vstat"
)

// C10 (process level) - the field expression in effect selects the fields the query is matched
// in: the one given with --nth, the ones put in effect later with change-nth / transform-nth,
// and the starting one when it is put back (spelled out, or with the empty expression).

var c10Words = []string{"apple", "berry", "cherry", "date", "elder", "fig"}

func c10ProcSession(t *rapid.T) {
	delimArg := rapid.SampledFrom([]string{"", ",", ":", "[,;]+"}).Draw(t, "delim")
	sep := map[string][]string{"": {" ", "  ", "\t"}, ",": {","}, ":": {":"}, "[,;]+": {",", ";", ",;"}}[delimArg]
	n := rapid.IntRange(8, 60).Draw(t, "nlines")
	lines := make([]string, n)
	for i := range lines {
		var sb strings.Builder
		nf := rapid.IntRange(1, 4).Draw(t, "nfields")
		for f := 0; f < nf; f++ {
			if f > 0 {
				sb.WriteString(rapid.SampledFrom(sep).Draw(t, "sep"))
			}
			sb.WriteString(rapid.SampledFrom(c10Words).Draw(t, "word"))
		}
		lines[i] = sb.String()
	}
	exprs := []string{"1", "2", "3", "-1", "2..", "..2", "..", "-2.."}
	startNth := rapid.SampledFrom(append([]string{"", ""}, exprs...)).Draw(t, "startNth")
	args := []string{"--no-mouse", "--no-sort"}
	if delimArg != "" {
		args = append(args, "--delimiter", delimArg)
	}
	if startNth != "" {
		args = append(args, "--nth", startNth)
	}
	exact := rapid.IntRange(0, 2).Draw(t, "exact") == 0
	if exact {
		args = append(args, "--exact")
	}
	s := StartSession(t, SessionCfg{Args: args, Input: []byte(strings.Join(lines, "\n") + "\n"), Width: 60, Height: 16})
	defer s.Close()
	history := []string{fmt.Sprintf("fzf %s  (%d lines)", strings.Join(args, " "), n)}

	d := delimOf(delimArg)
	nth := startNth
	query := ""
	expected := func(nth string) []int {
		var want []int
		kind := oracle.KindFuzzy
		if exact {
			kind = oracle.KindExact
		}
		for i, l := range lines {
			if query == "" {
				want = append(want, i)
				continue
			}
			texts := [][]rune{[]rune(l)}
			if nth != "" {
				texts = nil
				fields := oracle.Split(l, d)
				for _, e := range strings.Split(nth, ",") {
					r, ok := oracle.ParseFieldRange(e)
					if !ok {
						t.Fatalf("generator: field expression %q", e)
					}
					if txt, _, any := oracle.Select(fields, r); any {
						texts = append(texts, []rune(txt))
					}
				}
			}
			if oracle.EvalTermOn(oracle.Term{Kind: kind, Body: query}, oracle.QueryOpts{Extended: true}, texts) {
				want = append(want, i)
			}
		}
		return want
	}
	check := func(step string) {
		want := expected(nth)
		st, ok := s.WaitFor(1000, func(st *Status) bool {
			return !st.Reading && st.Query == query && st.TotalCount == n && st.MatchCount == len(want) && matchIndexes(st) == fmt.Sprint(want)
		})
		if !ok {
			if pt := s.panicText(); pt != "" {
				t.Fatalf("fzf crashed after %s\nhistory:\n  %s\n%s", step, strings.Join(history, "\n  "), pt)
			}
			effective := nth
			if effective == "" {
				effective = "(none: the whole line)"
			}
			t.Fatalf("after %s: with the field expression %s in effect and the query %q the documented selection matches the lines %v\nobserved: %s matching lines %s\nhistory:\n  %s\nlines: %q",
				step, effective, query, want, describe(st), matchIndexes(st), strings.Join(history, "\n  "), lines)
		}
	}
	check("start")
	steps := rapid.IntRange(3, 9).Draw(t, "steps")
	seen := map[string]bool{nth: true}
	backToStart, discriminating := false, false
	away := false
	for i := 0; i < steps; i++ {
		var acts []string
		for k, chain := 0, rapid.IntRange(1, 2).Draw(t, "chain"); k < chain; k++ {
			switch rapid.SampledFrom([]string{"change-nth", "change-nth", "change-nth", "transform-nth", "query", "query", "start-again", "start-again"}).Draw(t, "op") {
			case "change-nth":
				e := rapid.SampledFrom(exprs).Draw(t, "expr")
				if rapid.IntRange(0, 5).Draw(t, "twoRanges") == 0 {
					e += "," + rapid.SampledFrom(exprs).Draw(t, "expr2")
				}
				nth = e
				acts = append(acts, "change-nth("+e+")")
			case "transform-nth":
				e := rapid.SampledFrom(exprs).Draw(t, "expr")
				nth = e
				acts = append(acts, "transform-nth(echo "+e+")")
			case "start-again":
				// the starting expression again: spelled out, or the empty expression (the default)
				if startNth != "" && rapid.Bool().Draw(t, "spelledOut") {
					acts = append(acts, "change-nth("+startNth+")")
				} else {
					acts = append(acts, "change-nth()")
				}
				if away {
					backToStart = true
				}
				nth = startNth
			case "query":
				query = rapid.SampledFrom(c10Words).Draw(t, "q")
				if rapid.IntRange(0, 3).Draw(t, "partial") == 0 {
					query = query[:rapid.IntRange(1, len(query)-1).Draw(t, "len")]
				}
				acts = append(acts, "change-query("+query+")")
			}
			if nth != startNth {
				away = true
			}
		}
		body := strings.Join(acts, "+")
		history = append(history, "POST "+body)
		if code, err := s.Post(body); err != nil || code != 200 {
			if pt := s.panicText(); pt != "" {
				t.Fatalf("fzf crashed on POST %q\nhistory:\n  %s\n%s", body, strings.Join(history, "\n  "), pt)
			}
			t.Fatalf("POST %q answered %d (%v)\nhistory:\n  %s", body, code, err, strings.Join(history, "\n  "))
		}
		check("POST " + body)
		seen[nth] = true
		if query != "" {
			for e := range seen {
				if fmt.Sprint(expected(e)) != fmt.Sprint(expected(nth)) {
					discriminating = true
				}
			}
		}
	}
	nt := len(seen) >= 2 && discriminating
	vstat.Case("C10/proc-change-nth", strings.Join(history, "|")+fmt.Sprint(lines), nt, "delim="+delimArg, "startNth="+startNth, fmt.Sprintf("back_to_start=%v", backToStart), fmt.Sprintf("exact=%v", exact))
	if nt && vstat.WantSample("C10/proc-change-nth") {
		vstat.Sample("C10/proc-change-nth", history)
	}
}

func matchIndexes(st *Status) string {
	if st == nil {
		return "(no state)"
	}
	var got []int
	for _, it := range st.Matches {
		got = append(got, it.Index)
	}
	sort.Ints(got)
	return fmt.Sprint(got)
}

func TestVerifC10_ProcChangeNth(t *testing.T) {
	rapid.Check(t, c10ProcSession)
}

// --accept-nth picks its fields from the line as it was read (less its control sequences under
// --ansi), whatever --with-nth makes of the line for display and search. One line is singled
// out by a query on its unique first field and printed through --select-1.
func c10ProcAcceptNth(t *rapid.T) {
	delimArg := rapid.SampledFrom([]string{"", ",", ":", "[,;]+"}).Draw(t, "delim")
	sep := map[string][]string{"": {" ", "  ", "\t"}, ",": {","}, ":": {":"}, "[,;]+": {",", ";", ",;"}}[delimArg]
	ansi := rapid.Bool().Draw(t, "ansi")
	n := rapid.IntRange(1, 8).Draw(t, "nlines")
	lines := make([]string, n)
	for i := range lines {
		var sb strings.Builder
		nf := rapid.IntRange(1, 4).Draw(t, "nfields")
		for f := 0; f < nf; f++ {
			if f > 0 {
				sb.WriteString(rapid.SampledFrom(sep).Draw(t, "sep"))
			}
			w := rapid.SampledFrom(c10Words).Draw(t, "word")
			if f == 0 {
				w = fmt.Sprintf("id%dq", i)
			}
			if ansi && rapid.IntRange(0, 2).Draw(t, "coloured") == 0 {
				// (fields are cut from the line as read: a sequence that contains a delimiter character
				// would be cut in two, which no documentation covers)
				sgrs := []string{"\x1b[31m", "\x1b[1;44m", "\x1b[38;5;208m"}
				if strings.Contains(delimArg, ";") {
					sgrs = []string{"\x1b[31m", "\x1b[4m", "\x1b[7m"}
				}
				w = rapid.SampledFrom(sgrs).Draw(t, "sgr") + w + rapid.SampledFrom([]string{"\x1b[m", "\x1b[0m", ""}).Draw(t, "reset")
			}
			sb.WriteString(w)
		}
		lines[i] = sb.String()
	}
	pick := rapid.IntRange(0, n-1).Draw(t, "pick")
	withNth := rapid.SampledFrom([]string{"", "", "..", "1", "1,3", "3,1", "2,1", "1..2", "-1,1"}).Draw(t, "withNth")
	acceptNth := rapid.SampledFrom([]string{"1", "2", "3", "-1", "2..", "..2", "2,1", "1,3", "-2.."}).Draw(t, "acceptNth")
	args := []string{"--select-1", "--query", fmt.Sprintf("id%dq", pick), "--accept-nth", acceptNth}
	if delimArg != "" {
		args = append(args, "--delimiter", delimArg)
	}
	if withNth != "" {
		args = append(args, "--with-nth", withNth)
	}
	if ansi {
		args = append(args, "--ansi")
	}
	d := delimOf(delimArg)
	orig := lines[pick]
	if ansi {
		orig = oracle.StripAnsi(orig)
	}
	var sb strings.Builder
	for _, e := range strings.Split(acceptNth, ",") {
		r, ok := oracle.ParseFieldRange(e)
		if !ok {
			t.Fatalf("generator: %q", e)
		}
		txt, _, _ := oracle.Select(oracle.Split(orig, d), r)
		sb.WriteString(txt)
	}
	want := oracle.StripLastDelim(sb.String(), d) + "\n"
	got, code := runFilterProc(t, args, []byte(strings.Join(lines, "\n")+"\n"), nil)
	nt := withNth != "" && withNth != ".." && len(oracle.Split(orig, d)) >= 2
	vstat.Case("C10/proc-accept-nth", fmt.Sprintf("%q|%q", args, lines), nt, "delim="+delimArg, "withNth="+withNth, fmt.Sprintf("ansi=%v", ansi))
	if nt && vstat.WantSample("C10/proc-accept-nth") {
		vstat.Sample("C10/proc-accept-nth", map[string]interface{}{"args": args, "line": lines[pick], "printed": string(got)})
	}
	if code != 0 || string(got) != want {
		t.Fatalf("fzf %q on the lines %q (status %d) prints %q; fields %s of the line %q are %q", args, lines, code, got, acceptNth, orig, want)
	}
}

func TestVerifC10_ProcAcceptNth(t *testing.T) {
	rapid.Check(t, c10ProcAcceptNth)
}
