//go:build verif

package proc

import (
	"fmt"
	"os"
	"path/filepath"
	"regexp"
	"strconv"
	"strings"
	"testing"
	"time"

	"pgregory.net/rapid"
	"verif.local/oracle"
	"verif.local/vstat"
)

// C11 through the real pipeline: lines with SGR colours are fed to fzf --ansi
// and the colours are read back from the terminal (tmux capture-pane -e). The
// in-package units check the sequence parser; this one covers the wiring
// around it: the colour state carried from one input line to the next
// (including lines that consist of sequences only) and the placement of the
// spans on the characters that are displayed.

func (s *Session) CaptureStyled() []string {
	out, _ := tmux("capture-pane", "-e", "-p", "-t", s.Name)
	return strings.Split(out, "\n")
}

var sgrRe = regexp.MustCompile("\x1b\\[([0-9;]*)m")

// cellColours returns the text of a captured row and the foreground colour of
// every character: -1 default, 0-7 the basic palette, 100+ anything else.
func cellColours(row string) (string, []int) {
	var text strings.Builder
	var cols []int
	fg := -1
	for len(row) > 0 {
		if loc := sgrRe.FindStringSubmatchIndex(row); loc != nil && loc[0] == 0 {
			params := strings.Split(row[loc[2]:loc[3]], ";")
			for i := 0; i < len(params); i++ {
				n, _ := strconv.Atoi(params[i])
				switch {
				case params[i] == "" || n == 0:
					fg = -1
				case n >= 30 && n <= 37:
					fg = n - 30
				case n == 39:
					fg = -1
				case n == 38:
					if i+2 < len(params) && params[i+1] == "5" {
						v, _ := strconv.Atoi(params[i+2])
						if v <= 7 {
							fg = v
						} else {
							fg = 100 + v
						}
						i += 2
					} else if i+4 < len(params) && params[i+1] == "2" {
						fg = 1000
						i += 4
					}
				case n == 48:
					if i+2 < len(params) && params[i+1] == "5" {
						i += 2
					} else if i+4 < len(params) && params[i+1] == "2" {
						i += 4
					}
				case n >= 90 && n <= 97:
					fg = 100 + n
				}
			}
			row = row[loc[1]:]
			continue
		}
		if row[0] == 0x1b {
			// another sequence: skip to its final byte
			j := 1
			for j < len(row) && !(row[j] >= '@' && row[j] <= '~' && j > 1) {
				j++
			}
			if j < len(row) {
				j++
			}
			row = row[j:]
			continue
		}
		r := []rune(row)[0]
		text.WriteRune(r)
		cols = append(cols, fg)
		row = row[len(string(r)):]
	}
	return text.String(), cols
}

func c11ProcColours(t *rapid.T) {
	nlines := rapid.IntRange(2, 6).Draw(t, "nlines")
	state := -1 // foreground in force, carried from line to line
	type wantLine struct {
		text string
		cols []int
	}
	var wants []wantLine
	var input []string
	seqOnly, carried := false, false
	word := 0
	for li := 0; li < nlines; li++ {
		var raw strings.Builder
		var wl wantLine
		startState := state
		npieces := rapid.IntRange(0, 5).Draw(t, "npieces")
		if rapid.IntRange(0, 4).Draw(t, "sequencesOnly") == 0 {
			npieces = -rapid.IntRange(1, 2).Draw(t, "nseq")
		}
		emitSeq := func() {
			switch rapid.IntRange(0, 5).Draw(t, "seq") {
			case 0:
				raw.WriteString("\x1b[m")
				state = -1
			case 1:
				raw.WriteString("\x1b[39m")
				state = -1
			case 2:
				raw.WriteString("\x1b[0;1m\x1b[22m")
				state = -1
			default:
				c := rapid.IntRange(1, 6).Draw(t, "colour")
				fmt.Fprintf(&raw, "\x1b[%dm", 30+c)
				state = c
			}
		}
		if npieces < 0 {
			for k := 0; k < -npieces; k++ {
				emitSeq()
			}
			seqOnly = true
		}
		for k := 0; k < npieces; k++ {
			if rapid.Bool().Draw(t, "isText") {
				w := fmt.Sprintf("w%dx ", word)
				word++
				raw.WriteString(w)
				wl.text += w
				for range w {
					wl.cols = append(wl.cols, state)
				}
			} else {
				emitSeq()
			}
		}
		if wl.text != "" && startState != -1 && wl.cols[0] == startState {
			carried = true
		}
		input = append(input, raw.String())
		wants = append(wants, wl)
	}
	// the first line is an uncoloured one that holds the pointer (its row is drawn with other colours)
	all := append([]string{"pointer-line"}, input...)
	args := []string{"--ansi", "--no-mouse", "--no-sort", "--no-bold", "--info=hidden", "--no-separator", "--pointer", ">", "--no-scrollbar"}
	data := strings.Join(all, "\n") + "\n"
	height, nitems := 12, len(all)
	// or: the same lines grouped into multi-line records (--read0), in a window too short to show
	// all of them, so that the record at the edge is cut: the rows that are visible keep their colours
	multiline := rapid.IntRange(0, 1).Draw(t, "multilineRecords") == 0
	if multiline {
		var recs []string
		recs = append(recs, "pointer-line")
		for i := 0; i < len(input); {
			k := rapid.IntRange(1, 3).Draw(t, "recordLines")
			if i+k > len(input) {
				k = len(input) - i
			}
			recs = append(recs, strings.Join(input[i:i+k], "\n"))
			i += k
		}
		args = append(args, "--read0")
		data = strings.Join(recs, "\x00") + "\x00"
		height, nitems = rapid.IntRange(4, 8).Draw(t, "shortWindow"), len(recs)
	}
	s := StartSession(t, SessionCfg{Args: args, Input: []byte(data), Width: 70, Height: height})
	defer s.Close()
	if _, ok := s.WaitFor(20, func(st *Status) bool { return !st.Reading && st.TotalCount == nitems && st.MatchCount == nitems }); !ok {
		infra(t, "session did not settle")
	}
	desc := fmt.Sprintf("%q", input)
	var msg string
	for attempt := 0; attempt < 40; attempt++ {
		msg = ""
		rows := s.CaptureStyled()
		found := 0
		for _, wl := range wants {
			if strings.TrimSpace(wl.text) == "" {
				continue
			}
			hit := false
			for _, row := range rows {
				text, cols := cellColours(row)
				at := strings.Index(text, strings.TrimRight(wl.text, " "))
				if at < 0 {
					continue
				}
				hit = true
				off := len([]rune(text[:at]))
				for k, want := range wl.cols {
					if []rune(wl.text)[k] == ' ' || off+k >= len(cols) {
						continue
					}
					if got := cols[off+k]; got != want && !(want == -1 && got >= 100) {
						msg = fmt.Sprintf("character %d (%q) of the line %q is shown with foreground %d, the input gives %d", k, []rune(wl.text)[k], wl.text, got, want)
					}
				}
			}
			if hit {
				found++
			} else if !multiline {
				msg = fmt.Sprintf("line %q is not on the screen", wl.text)
			}
		}
		if msg == "" {
			break
		}
		// the screen may not be drawn yet
		time.Sleep(50 * time.Millisecond)
	}
	vstat.Case("C11/proc-colours", desc, seqOnly && carried, fmt.Sprintf("sequence_only_line=%v", seqOnly), fmt.Sprintf("carried=%v", carried), fmt.Sprintf("multiline_records=%v", multiline))
	if msg != "" {
		t.Fatalf("%s\ninput lines: %s\nscreen:\n%s", msg, desc, strings.Join(s.Capture(), "\n"))
	}
	s.Post("abort")
}

func TestVerifC11_ProcColours(t *testing.T) {
	rapid.Check(t, c11ProcColours)
}

// With --ansi the text of a line that fzf hands out - in the state reported over --listen, to a
// command through {} and on standard output when the line is accepted - is the line without its
// control sequences, whether or not colours are shown (--no-color, --color=bw, NO_COLOR) and
// whether or not another text is displayed for the line (--with-nth).
func c11ProcPrinted(t *rapid.T) {
	seqs := []string{"\x1b[31m", "\x1b[1;44m", "\x1b[m", "\x1b[0m", "\x1b[K", "\x1b(B", "\x0e", "\x0f", "q\x08", "\x1b]0;title\x07", "\x1b]8;;http://x/~y\x1b\\", "\x1b]8;;\x1b\\", "\x1b[38;5;200m", "\x1b[39;49m", "\x1bM"}
	words := []string{"alpha", "beta", "a-b", "ab1", "é-a", "zzz", " ", "1", "xay"}
	nlines := rapid.IntRange(1, 8).Draw(t, "nlines")
	lines := make([]string, nlines)
	anySeq := false
	for i := range lines {
		var sb strings.Builder
		sb.WriteString(fmt.Sprintf("L%d ", i))
		for k := rapid.IntRange(0, 6).Draw(t, "npieces"); k > 0; k-- {
			if rapid.Bool().Draw(t, "isSeq") {
				sb.WriteString(rapid.SampledFrom(seqs).Draw(t, "seq"))
				anySeq = true
			} else {
				sb.WriteString(rapid.SampledFrom(words).Draw(t, "word"))
			}
		}
		lines[i] = sb.String()
	}
	args := []string{"--ansi", "--multi", "--no-sort", "--no-mouse"}
	var env []string
	colour := rapid.SampledFrom([]string{"", "", "--no-color", "--color=bw", "NO_COLOR", "--color=dark"}).Draw(t, "colours")
	switch colour {
	case "":
	case "NO_COLOR":
		env = append(env, "NO_COLOR=1")
	default:
		args = append(args, colour)
	}
	withNth := rapid.SampledFrom([]string{"", "", "..", "2..", "1", "-1"}).Draw(t, "withNth")
	if withNth != "" {
		args = append(args, "--with-nth", withNth)
	}
	dir, err := os.MkdirTemp(workDir, "c11p")
	if err != nil {
		infra(t, "%v", err)
	}
	defer os.RemoveAll(dir)
	out := filepath.Join(dir, "current.txt")
	s := StartSession(t, SessionCfg{Args: args, Env: env, Input: []byte(strings.Join(lines, "\n") + "\n"), Width: 70, Height: 14})
	defer s.Close()
	st, ok := s.WaitFor(100, func(st *Status) bool { return !st.Reading && st.TotalCount == nlines && st.MatchCount == nlines && len(st.Matches) == nlines })
	if !ok {
		infra(t, "session did not settle: %s", describe(st))
	}
	desc := fmt.Sprintf("fzf %s %v, input lines %q", strings.Join(args, " "), env, lines)
	nt := anySeq && withNth != "" && colour != "" && colour != "--color=dark"
	vstat.Case("C11/proc-printed", desc, nt, "colours="+colour, "withNth="+withNth)
	if nt && vstat.WantSample("C11/proc-printed") {
		vstat.Sample("C11/proc-printed", map[string]interface{}{"args": args, "env": env, "lines": fmt.Sprintf("%q", lines)})
	}
	for _, it := range st.Matches {
		if it.Index < 0 || it.Index >= nlines {
			t.Fatalf("%s: the state lists item #%d", desc, it.Index)
		}
		if want := oracle.StripAnsi(lines[it.Index]); it.Text != want {
			t.Fatalf("%s: the state reports line %d as %q, the line without its control sequences is %q", desc, it.Index, it.Text, want)
		}
	}
	// {} of the current line
	pos := rapid.IntRange(1, nlines).Draw(t, "pos")
	s.Post(fmt.Sprintf("pos(%d)+execute-silent(printf %%s {} > %s.tmp; mv %s.tmp %s)", pos, shQuote(out), shQuote(out), shQuote(out)))
	var got []byte
	for i := 0; i < 400; i++ {
		if got, err = os.ReadFile(out); err == nil {
			break
		}
		time.Sleep(10 * time.Millisecond)
	}
	if err != nil {
		if pt := s.panicText(); pt != "" {
			t.Fatalf("%s: fzf crashed\n%s", desc, pt)
		}
		infra(t, "execute-silent did not write its file")
	}
	if want := oracle.StripAnsi(lines[pos-1]); string(got) != want {
		t.Fatalf("%s: {} on line %d gave %q, the line without its control sequences is %q", desc, pos-1, got, want)
	}
	s.Post("select-all+accept")
	if _, ok := s.WaitExit(20 * time.Second); !ok {
		t.Fatalf("%s: fzf did not exit after select-all+accept", desc)
	}
	var want strings.Builder
	for _, l := range lines {
		want.WriteString(oracle.StripAnsi(l) + "\n")
	}
	if string(s.Stdout()) != want.String() {
		t.Fatalf("%s: accepted lines printed as %q, expected %q", desc, s.Stdout(), want.String())
	}
}

func TestVerifC11_ProcPrinted(t *testing.T) {
	rapid.Check(t, c11ProcPrinted)
}
