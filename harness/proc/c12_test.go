//go:build verif

package proc

import (
	"fmt"
	"os"
	"path/filepath"
	"strings"
	"testing"
	"time"

	"pgregory.net/rapid"
	"verif.local/vstat"
)

// C12 in a live session: which items {+} stands for. The in-package unit hands
// the item list to the expansion itself; here the list is built by fzf from
// the selection and the pointer: every selected item in selection order, the
// item under the pointer only when nothing is selected.
func c12ProcPlus(t *rapid.T) {
	pool := []string{"plain", "two words", "it's", "a\"b", "$HOME", "x;y", "back\\slash", "star*", "tab\there", "é漢", "-n", "", "  lead"}
	n := rapid.IntRange(2, 7).Draw(t, "nitems")
	lines := make([]string, n)
	for i := range lines {
		lines[i] = fmt.Sprintf("%s,f%d", rapid.SampledFrom(pool).Draw(t, "text"), i)
	}
	s := StartSession(t, SessionCfg{Args: []string{"--no-mouse", "--multi", "--no-sort", "--delimiter", ","}, Input: []byte(strings.Join(lines, "\n") + "\n"), Width: 70, Height: 12})
	defer s.Close()
	if _, ok := s.WaitFor(10, func(st *Status) bool { return !st.Reading && st.MatchCount == n }); !ok {
		infra(t, "session did not settle")
	}
	// select some items (in an order of our choosing), then put the pointer somewhere
	k := rapid.IntRange(0, imin(3, n)).Draw(t, "nselected")
	perm := rapid.Permutation(seq(n)).Draw(t, "order")
	var selected []int
	history := []string{fmt.Sprintf("%d items, %q", n, lines)}
	for _, idx := range perm[:k] {
		body := fmt.Sprintf("pos(%d)+toggle", idx+1)
		s.Post(body)
		history = append(history, "POST "+body)
		selected = append(selected, idx)
		if _, ok := s.WaitFor(10, func(st *Status) bool { return len(st.Selected) == len(selected) }); !ok {
			t.Fatalf("selection does not settle\nhistory:\n  %s", strings.Join(history, "\n  "))
		}
		time.Sleep(2 * time.Millisecond) // selection order is by time
	}
	// then, now and then, everything else at once: what was selected by hand was selected earlier
	if k > 0 && rapid.IntRange(0, 2).Draw(t, "selectAll") == 0 {
		s.Post("select-all")
		history = append(history, "POST select-all")
		for i := 0; i < n; i++ {
			already := false
			for _, j := range selected {
				if i == j {
					already = true
				}
			}
			if !already {
				selected = append(selected, i)
			}
		}
		if _, ok := s.WaitFor(10, func(st *Status) bool { return len(st.Selected) == n }); !ok {
			t.Fatalf("select-all does not settle\nhistory:\n  %s", strings.Join(history, "\n  "))
		}
	}
	cur := rapid.IntRange(0, n-1).Draw(t, "pointer")
	s.Post(fmt.Sprintf("pos(%d)", cur+1))
	history = append(history, fmt.Sprintf("POST pos(%d)", cur+1))
	if _, ok := s.WaitFor(10, func(st *Status) bool { return st.Current != nil && st.Current.Index == cur }); !ok {
		t.Fatalf("pointer does not settle\nhistory:\n  %s", strings.Join(history, "\n  "))
	}
	out := filepath.Join(s.Dir, "words")
	form := rapid.SampledFrom([]string{"{+}", "{+1}", "{+n}", "{} {+}", "{+} {}", "{n} {+n}", "{+2}"}).Draw(t, "template")
	action := rapid.SampledFrom([]string{"execute-silent", "execute"}).Draw(t, "action")
	body := fmt.Sprintf("%s(printf '%%s\\0' %s > %s)", action, form, out)
	s.Post(body)
	history = append(history, "POST "+body)
	var data []byte
	for i := 0; i < 400; i++ {
		if b, err := os.ReadFile(out); err == nil && len(b) > 0 {
			data = b
			break
		}
		time.Sleep(10 * time.Millisecond)
	}
	plus := selected
	if len(plus) == 0 {
		plus = []int{cur}
	}
	field := func(l string, k int) string {
		fs := strings.Split(l, ",")
		if k-1 < len(fs) {
			return strings.TrimSpace(fs[k-1])
		}
		return ""
	}
	var want []string
	for _, ph := range strings.Split(form, " ") {
		switch ph {
		case "{}":
			want = append(want, lines[cur])
		case "{n}":
			want = append(want, fmt.Sprint(cur))
		case "{+}":
			for _, i := range plus {
				want = append(want, lines[i])
			}
		case "{+n}":
			for _, i := range plus {
				want = append(want, fmt.Sprint(i))
			}
		case "{+1}", "{+2}":
			for _, i := range plus {
				want = append(want, field(lines[i], int(ph[2]-'0')))
			}
		}
	}
	got := strings.Split(strings.TrimSuffix(string(data), "\x00"), "\x00")
	onSelected := false
	for _, i := range selected {
		if i == cur {
			onSelected = true
		}
	}
	vstat.Case("C12/proc-plus", strings.Join(history, "|"), len(selected) >= 1 && !onSelected, fmt.Sprintf("selected=%d", len(selected)), "template="+form)
	if strings.Join(got, "\x01") != strings.Join(want, "\x01") {
		t.Fatalf("template %q with %d selected item(s) %v and the pointer on item %d: the command received the words %q, expected %q\nhistory:\n  %s", form, len(selected), selected, cur, got, want, strings.Join(history, "\n  "))
	}
	s.Post("abort")
}

func seq(n int) []int {
	out := make([]int, n)
	for i := range out {
		out[i] = i
	}
	return out
}

func TestVerifC12_ProcPlusList(t *testing.T) {
	rapid.Check(t, c12ProcPlus)
}
