//go:build verif

package proc

import (
	"fmt"
	"os"
	"path/filepath"
	"strings"
	"syscall"
	"testing"
	"time"

	"pgregory.net/rapid"
	"verif.local/vstat"
)

// C13 with the whole coordinator in the loop: a stream that keeps growing is
// read with --tail N while the query is switched back and forth. Whenever the
// session is quiescent, the list is the filter of exactly the last N records
// that have arrived - a search result computed for an older window must not
// come back (the matcher keeps results by query and input revision).
func c13TailStream(t *rapid.T) {
	dir, err := os.MkdirTemp(workDir, "c13")
	if err != nil {
		infra(t, "%v", err)
	}
	defer os.RemoveAll(dir)
	fifo := filepath.Join(dir, "in")
	if err := syscall.Mkfifo(fifo, 0o600); err != nil {
		infra(t, "mkfifo: %v", err)
	}
	tail := rapid.SampledFrom([]int{3, 10, 25, 120}).Draw(t, "tail")
	s := StartSession(t, SessionCfg{Args: []string{"--no-mouse", "--no-sort", fmt.Sprintf("--tail=%d", tail)}, InputCmd: "cat " + shQuote(fifo), Width: 60, Height: 12})
	defer s.Close()
	f, err := os.OpenFile(fifo, os.O_WRONLY, 0)
	if err != nil {
		infra(t, "open fifo: %v", err)
	}
	defer f.Close()
	var fed []string
	query := ""
	history := []string{fmt.Sprintf("fzf --no-sort --tail=%d", tail)}
	trimmedWithQuery, revisited := false, false
	seen := map[string]bool{}
	converge := func(step string) {
		window := fed
		if len(window) > tail {
			window = window[len(window)-tail:]
		}
		var want []string
		for _, l := range window {
			if simpleFuzzy(query, l) {
				want = append(want, l)
			}
		}
		pred := func(st *Status) bool {
			if st.Query != query || st.TotalCount != len(window) || st.MatchCount != len(want) || len(st.Matches) != len(want) {
				return false
			}
			for i, m := range st.Matches {
				if m.Text != want[i] {
					return false
				}
			}
			return true
		}
		if st, ok := s.WaitFor(200, pred); !ok {
			var got []string
			if st != nil {
				for _, m := range st.Matches {
					got = append(got, m.Text)
				}
			}
			t.Fatalf("%s: the list is not the filter of the last %d of the %d records read so far\nquery %q\nexpected %q\nobserved %q (%s)\nhistory:\n  %s", step, tail, len(fed), query, want, got, describe(st), strings.Join(history, "\n  "))
		}
	}
	rounds := rapid.IntRange(2, 12).Draw(t, "rounds")
	for r := 0; r < rounds; r++ {
		// more input ...
		k := rapid.IntRange(0, 8).Draw(t, "newRecords")
		var sb strings.Builder
		for i := 0; i < k; i++ {
			l := fmt.Sprintf("item-%04d", len(fed))
			fed = append(fed, l)
			sb.WriteString(l + "\n")
		}
		if k > 0 {
			if _, err := f.WriteString(sb.String()); err != nil {
				infra(t, "write fifo: %v", err)
			}
			history = append(history, fmt.Sprintf("%d more records (%d in all)", k, len(fed)))
		}
		// ... and a query change right behind it (before the reader's poll reports the new records)
		time.Sleep(time.Duration(rapid.SampledFrom([]int{0, 0, 2, 15, 80}).Draw(t, "gapMs")) * time.Millisecond)
		if rapid.IntRange(0, 3).Draw(t, "changeQuery") > 0 {
			q := rapid.SampledFrom([]string{"", "", "1", "7", "00"}).Draw(t, "query")
			if q != query {
				if seen[q] {
					revisited = true
				}
				if k > 0 && len(fed) > tail {
					trimmedWithQuery = true
				}
				query = q
				seen[q] = true
				history = append(history, "POST change-query("+q+")")
				s.Post("change-query(" + q + ")")
			}
		}
		if rapid.IntRange(0, 2).Draw(t, "settle") > 0 {
			converge(fmt.Sprintf("round %d", r+1))
		}
	}
	converge("end of history")
	vstat.Case("C13/proc-tail-stream", strings.Join(history, "|"), trimmedWithQuery && revisited, fmt.Sprintf("tail=%d", tail), fmt.Sprintf("revisited_query=%v", revisited))
	s.Post("abort")
}

func TestVerifC13_ProcTailStream(t *testing.T) {
	rapid.Check(t, c13TailStream)
}
