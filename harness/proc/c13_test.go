//go:build verif

package proc

import (
	"fmt"
	"os"
	"path/filepath"
	"strings"
	"syscall"
	"testing"
	"time"

	"pgregory.net/rapid"
	"verif.local/vstat"
)

// C13 with the whole coordinator in the loop: a stream that keeps growing is
// read with --tail N while the query is switched back and forth. Whenever the
// session is quiescent, the list is the filter of exactly the last N records
// that have arrived - a search result computed for an older window must not
// come back (the matcher keeps results by query and input revision).
func c13TailStream(t *rapid.T) {
	dir, err := os.MkdirTemp(workDir, "c13")
	if err != nil {
		infra(t, "%v", err)
	}
	defer os.RemoveAll(dir)
	fifo := filepath.Join(dir, "in")
	if err := syscall.Mkfifo(fifo, 0o600); err != nil {
		infra(t, "mkfifo: %v", err)
	}
	tail := rapid.SampledFrom([]int{3, 10, 25, 120}).Draw(t, "tail")
	s := StartSession(t, SessionCfg{Args: []string{"--no-mouse", "--no-sort", fmt.Sprintf("--tail=%d", tail)}, InputCmd: "cat " + shQuote(fifo), Width: 60, Height: 12})
	defer s.Close()
	f, err := os.OpenFile(fifo, os.O_WRONLY, 0)
	if err != nil {
		infra(t, "open fifo: %v", err)
	}
	defer f.Close()
	var fed []string
	query := ""
	history := []string{fmt.Sprintf("fzf --no-sort --tail=%d", tail)}
	trimmedWithQuery, revisited := false, false
	seen := map[string]bool{}
	converge := func(step string) {
		window := fed
		if len(window) > tail {
			window = window[len(window)-tail:]
		}
		var want []string
		for _, l := range window {
			if simpleFuzzy(query, l) {
				want = append(want, l)
			}
		}
		pred := func(st *Status) bool {
			if st.Query != query || st.TotalCount != len(window) || st.MatchCount != len(want) || len(st.Matches) != len(want) {
				return false
			}
			for i, m := range st.Matches {
				if m.Text != want[i] {
					return false
				}
			}
			return true
		}
		if st, ok := s.WaitFor(200, pred); !ok {
			var got []string
			if st != nil {
				for _, m := range st.Matches {
					got = append(got, m.Text)
				}
			}
			t.Fatalf("%s: the list is not the filter of the last %d of the %d records read so far\nquery %q\nexpected %q\nobserved %q (%s)\nhistory:\n  %s", step, tail, len(fed), query, want, got, describe(st), strings.Join(history, "\n  "))
		}
	}
	rounds := rapid.IntRange(2, 12).Draw(t, "rounds")
	for r := 0; r < rounds; r++ {
		// more input ...
		k := rapid.IntRange(0, 8).Draw(t, "newRecords")
		var sb strings.Builder
		for i := 0; i < k; i++ {
			l := fmt.Sprintf("item-%04d", len(fed))
			fed = append(fed, l)
			sb.WriteString(l + "\n")
		}
		if k > 0 {
			if _, err := f.WriteString(sb.String()); err != nil {
				infra(t, "write fifo: %v", err)
			}
			history = append(history, fmt.Sprintf("%d more records (%d in all)", k, len(fed)))
		}
		// ... and a query change right behind it (before the reader's poll reports the new records)
		time.Sleep(time.Duration(rapid.SampledFrom([]int{0, 0, 2, 15, 80}).Draw(t, "gapMs")) * time.Millisecond)
		if rapid.IntRange(0, 3).Draw(t, "changeQuery") > 0 {
			q := rapid.SampledFrom([]string{"", "", "1", "7", "00"}).Draw(t, "query")
			if q != query {
				if seen[q] {
					revisited = true
				}
				if k > 0 && len(fed) > tail {
					trimmedWithQuery = true
				}
				query = q
				seen[q] = true
				history = append(history, "POST change-query("+q+")")
				s.Post("change-query(" + q + ")")
			}
		}
		if rapid.IntRange(0, 2).Draw(t, "settle") > 0 {
			converge(fmt.Sprintf("round %d", r+1))
		}
	}
	converge("end of history")
	vstat.Case("C13/proc-tail-stream", strings.Join(history, "|"), trimmedWithQuery && revisited, fmt.Sprintf("tail=%d", tail), fmt.Sprintf("revisited_query=%v", revisited))
	s.Post("abort")
}

func TestVerifC13_ProcTailStream(t *testing.T) {
	rapid.Check(t, c13TailStream)
}

// The input is replaced (reload, reload-sync) after lines were taken off the list with the
// exclude action and after searches were finished on the previous input, and earlier queries are
// typed again: whenever the session is quiescent the list is the filter of exactly the lines of
// the input now loaded, less the lines excluded since it was loaded - nothing computed for the
// previous input (results, patterns, exclusions) comes back.
func c13ReplacedInput(t *rapid.T) {
	dir, err := os.MkdirTemp(workDir, "c13r")
	if err != nil {
		infra(t, "%v", err)
	}
	defer os.RemoveAll(dir)
	inputs := map[string][]string{}
	for _, name := range []string{"a", "b", "c"} {
		n := rapid.SampledFrom([]int{0, 4, 12, 40, 130, 260}).Draw(t, "size-"+name)
		var ls []string
		for i := 0; i < n; i++ {
			ls = append(ls, fmt.Sprintf("%s-item-%04d", name, i*7%1000))
		}
		inputs[name] = ls
		data := strings.Join(ls, "\n")
		if n > 0 {
			data += "\n"
		}
		os.WriteFile(filepath.Join(dir, name), []byte(data), 0o644)
	}
	loaded := inputs["a"]
	s := StartSession(t, SessionCfg{Args: []string{"--no-mouse", "--no-sort"}, InputCmd: "cat " + shQuote(filepath.Join(dir, "a")), Width: 60, Height: 12})
	defer s.Close()
	query := ""
	excluded := map[string]bool{}
	history := []string{"fzf --no-sort  < a"}
	var want []string
	converge := func(step string) {
		want = nil
		for _, l := range loaded {
			if !excluded[l] && simpleFuzzy(query, l) {
				want = append(want, l)
			}
		}
		pred := func(st *Status) bool {
			if st.Reading || st.Query != query || st.TotalCount != len(loaded) || st.MatchCount != len(want) || len(st.Matches) != len(want) {
				return false
			}
			for i, m := range st.Matches {
				if m.Text != want[i] {
					return false
				}
			}
			return true
		}
		if st, ok := s.WaitFor(1000, pred); !ok {
			if pt := s.panicText(); pt != "" {
				t.Fatalf("fzf crashed after %s\nhistory:\n  %s\n%s", step, strings.Join(history, "\n  "), pt)
			}
			var got []string
			if st != nil {
				for _, m := range st.Matches {
					got = append(got, m.Text)
				}
			}
			t.Fatalf("%s: the list is not the filter of the %d lines now loaded (less the %d excluded since)\nquery %q\nexpected %d lines %q\nobserved %d lines %q (%s)\nhistory:\n  %s", step, len(loaded), len(excluded), query, len(want), clipList(want), len(got), clipList(got), describe(st), strings.Join(history, "\n  "))
		}
	}
	converge("start")
	exclusions, reloadsAfterExclusion, revisited, generation := 0, 0, false, 0
	current, instalments := "a", 0
	seenSinceExclusion := map[string]bool{}
	steps := rapid.IntRange(4, 14).Draw(t, "steps")
	for i := 0; i < steps; i++ {
		switch rapid.SampledFrom([]string{"query", "query", "query", "exclude", "exclude", "reload", "reload"}).Draw(t, "op") {
		case "query":
			q := rapid.SampledFrom([]string{"", "", "1", "7", "00", "item", "a-", "b-"}).Draw(t, "query")
			if q == query {
				continue
			}
			query = q
			history = append(history, "POST change-query("+q+")")
			s.Post("change-query(" + q + ")")
			if exclusions > 0 {
				seenSinceExclusion[q] = true
			}
		case "exclude":
			converge("before exclude") // the position refers to the list as it is
			if len(want) == 0 {
				continue
			}
			k := rapid.IntRange(1, imin(len(want), 9)).Draw(t, "pos")
			excluded[want[k-1]] = true
			exclusions++
			seenSinceExclusion[query] = true
			history = append(history, fmt.Sprintf("POST pos(%d)+exclude   (%s)", k, want[k-1]))
			s.Post(fmt.Sprintf("pos(%d)+exclude", k))
		case "reload":
			name := rapid.SampledFrom([]string{"a", "b", "c"}).Draw(t, "input")
			if rapid.Bool().Draw(t, "sameInputAgain") {
				name = current // as many lines as before
			}
			current = name
			action := rapid.SampledFrom([]string{"reload", "reload-sync"}).Draw(t, "how")
			if len(excluded) > 0 {
				reloadsAfterExclusion++
				if seenSinceExclusion[query] {
					revisited = true
				}
			}
			// every line of the new input carries the number of the reload, so that the new list is
			// told from the previous one even when the same file is read again
			generation++
			loaded = nil
			for _, l := range inputs[name] {
				loaded = append(loaded, fmt.Sprintf("%s-g%d", l, generation))
			}
			excluded = map[string]bool{}
			cmd := fmt.Sprintf("sed 's/$/-g%d/' %s", generation, shQuote(filepath.Join(dir, name)))
			shown := fmt.Sprintf("sed 's/$/-g%d/' %s", generation, name)
			if nl := len(inputs[name]); nl >= 4 && rapid.Bool().Draw(t, "inTwoInstalments") {
				// the new input arrives in two instalments, the second one together with the end of input
				k := rapid.IntRange(1, nl-1).Draw(t, "firstInstalment")
				f := shQuote(filepath.Join(dir, name))
				cmd = fmt.Sprintf("sed -n '1,%dp' %s | sed 's/$/-g%d/'; sleep 0.%d; sed -n '%d,$p' %s | sed 's/$/-g%d/'", k, f, generation, rapid.IntRange(1, 4).Draw(t, "pauseTenths"), k+1, f, generation)
				shown += fmt.Sprintf(" (first %d lines, pause, the rest)", k)
				instalments++
			}
			history = append(history, fmt.Sprintf("POST %s(%s)", action, shown))
			s.Post(fmt.Sprintf("%s(%s)", action, cmd))
			if rapid.Bool().Draw(t, "settleAfterReload") {
				converge("after " + action)
			}
		}
		if rapid.IntRange(0, 2).Draw(t, "settle") > 0 {
			converge(fmt.Sprintf("step %d", i+1))
		}
	}
	converge("end of history")
	nt := reloadsAfterExclusion > 0 && revisited || instalments > 0
	vstat.Case("C13/proc-replaced-input", strings.Join(history, "|"), nt, fmt.Sprintf("reloads_in_instalments=%d", imin(instalments, 3)), fmt.Sprintf("exclusions=%d", imin(exclusions, 3)), fmt.Sprintf("reloads_after_exclusion=%d", imin(reloadsAfterExclusion, 3)))
	if nt && vstat.WantSample("C13/proc-replaced-input") {
		vstat.Sample("C13/proc-replaced-input", history)
	}
	s.Post("abort")
}

func clipList(l []string) []string {
	if len(l) > 12 {
		return append(append([]string{}, l[:12]...), "...")
	}
	return l
}

func TestVerifC13_ProcReplacedInput(t *testing.T) {
	rapid.Check(t, c13ReplacedInput)
}
