//go:build verif

package proc

import (
	"fmt"
	"os"
	"path/filepath"
	"regexp"
	"strings"
	"syscall"
	"testing"
	"time"

	"pgregory.net/rapid"
	"verif.local/vstat"
)

// C14 - the UI never crashes or hangs and always leaves terminal and system clean.

const kfPreviewSurvives = "exit-during-running-preview"

var plainActionList []string

// plainActions scrapes the bindable actions without argument from the option
// parser of the tree under test (so that new actions are exercised too).
func plainActions(t fataler) []string {
	if plainActionList != nil {
		return plainActionList
	}
	src, err := os.ReadFile(filepath.Join(os.Getenv("VERIF_REPO"), "src", "options.go"))
	if err != nil {
		infra(t, "cannot read options.go: %v", err)
	}
	start := strings.Index(string(src), "func parseActionList(")
	end := strings.Index(string(src)[start:], "default:")
	body := string(src)[start : start+end]
	seen := map[string]bool{}
	banned := map[string]bool{"accept": true, "accept-non-empty": true, "accept-or-print-query": true, "abort": true, "print-query": true, "jump-accept": true, "put": true,
		"cancel": true, "delete-char/eof": true, "backward-delete-char/eof": true, "close": true}
	for _, m := range regexp.MustCompile(`"([a-z][a-z0-9/-]*)"`).FindAllStringSubmatch(body, -1) {
		if !banned[m[1]] && !seen[m[1]] {
			seen[m[1]] = true
			plainActionList = append(plainActionList, m[1])
		}
	}
	if len(plainActionList) < 50 {
		infra(t, "only %d plain actions scraped", len(plainActionList))
	}
	return plainActionList
}

var c14ArgActions = []string{"put(x)", "put(é)", "put( )", "change-query(ab)", "change-query()", "pos(3)", "pos(-1)", "pos(0)", "change-prompt(>> )", "change-prompt()", "change-header(H1\nH2)", "change-header()",
	"change-preview-window(up,30%)", "change-preview-window(up,70%)", "change-preview-window(down,20%)", "change-preview-window(down,80%)", "change-preview-window(right,50%,border-none)", "change-preview-window(right,50%,border-top)", "change-preview-window(hidden)", "change-preview-window(right,50%,wrap)", "change-preview-window(bottom,1)", "change-preview-window(left,90%,border-none)",
	"change-preview(echo other {})", "preview(echo tmp {})", "execute-silent(cat {f})", "execute-silent(cat {+f} > /dev/null)", "execute(true {f} {+f})", "transform-header(cat {f})", "change-query(zzzz-nothing-matches)", "execute-silent(true)", "execute-silent(sleep 0.05)", "reload(seq 7)", "reload(printf 'a\\nb')", "reload-sync(seq 3)", "reload(true)",
	"change-multi(2)", "change-multi(0)", "change-multi", "change-nth(1)", "change-nth(..)", "change-pointer(>>)", "change-pointer()", "change-ghost(type)", "change-border-label( L )", "change-list-label(ll)",
	"change-input-label(il)", "change-header-label(hl)", "change-preview-label(pl)", "transform-query(echo q)", "transform(echo up+down)", "transform-prompt(echo P)", "transform-header(echo TH)",
	"search(b)", "print(x)", "unbind(ctrl-a)", "rebind(ctrl-a)", "toggle-bind(ctrl-a)", "transform-search(echo a)", "transform-nth(echo 1)", "transform-pointer(echo p)", "transform-ghost(echo g)"}

var c14Keys = [][]byte{
	[]byte("a"), []byte("Z"), []byte(" "), []byte("é"), []byte("漢"), {0x01}, {0x02}, {0x05}, {0x06}, {0x0b}, {0x0e}, {0x10}, {0x15}, {0x17}, {0x19}, {0x09}, {0x7f}, {0x08}, {0x0c}, {0x12},
	[]byte("\x1b[A"), []byte("\x1b[B"), []byte("\x1b[C"), []byte("\x1b[D"), []byte("\x1b[5~"), []byte("\x1b[6~"), []byte("\x1b[H"), []byte("\x1b[F"), []byte("\x1b[Z"), []byte("\x1bOA"), []byte("\x1b[1;5C"), []byte("\x1b[1;2A"), []byte("\x1b[3~"),
	[]byte("\x1b["), []byte("\x1b[1;"), []byte("\x1bO"), []byte("\x1b[<"), []byte("\x1b[<0;"), []byte("\x1b[M"), []byte("\x1b[200~"), []byte("\x1b[99999999999A"), []byte("\x1b[;;;~"), []byte("\x1bb"), []byte("\x1bf"), []byte("\x1b\x7f"),
	[]byte("\x1b[200~pasted\ntext\x1b[201~"), []byte("\x1b[200~\x1b[201~"), []byte("\x1b[<0;5;3M\x1b[<0;5;3m"), []byte("\x1b[<0;300;200M"), []byte("\x1b[<0;1;1M\x1b[<0;1;1m"), []byte("\x1b[<64;10;5M"), []byte("\x1b[<65;10;5M"),
	[]byte("\x1b[<2;10;5M\x1b[<2;10;5m"), []byte("\x1b[<32;12;6M"), []byte("\x1b[<0;0;0M"), []byte("\x1b[<0;10;5M\x1b[<32;11;6M\x1b[<0;11;6m"), []byte("\x1b[M !!"), []byte("\x1b[M\x20\xff\xff"), {0xff, 0xfe}, {0xc3}, {0x00},
}

// complete key / mouse / paste sequences of xterm-style terminals; bursts end at
// any prefix of them
var c14Sequences = []string{"\x1b[A", "\x1b[1;5A", "\x1b[1;2D", "\x1b[1;10C", "\x1b[3~", "\x1b[3;5~", "\x1b[3;2~", "\x1b[2~", "\x1b[5~", "\x1b[6~", "\x1b[5;5~", "\x1b[6;2~", "\x1b[15~", "\x1b[17~", "\x1b[24~", "\x1b[11~",
	"\x1b[1~", "\x1b[4~", "\x1b[7~", "\x1b[8~", "\x1b[Z", "\x1bOP", "\x1bOS", "\x1bOA", "\x1bOH", "\x1b[H", "\x1b[F", "\x1b[1;5H", "\x1b[200~x\x1b[201~", "\x1b[<0;10;5M", "\x1b[<35;10;5M", "\x1b[<64;1;1M", "\x1b[<0;10;5m",
	"\x1b[M !!", "\x1b\x1b[A", "\x1b\x1b[3~", "\x1b[27;5;13~", "\x1b[13;2u", "\x1b[97;5u", "\x1b[I", "\x1b[O", "\x1b[1;3A", "\x1b[1;6B", "\x1b[1;7C", "\x1b[1;8D", "\x1b[23;2~", "\x1b[E", "\x1b[3;3~", "\x1b[3;10~", "\x1bO5A", "\x1b[[A"}

var c14Items = []string{"plain", "wide 漢字漢字漢字", "comb ééé", "tab\there", "ctrl \x01\x02\x1f", "esc \x1b[31mred\x1b[m", "inval \xff\xfe\xc3", "", " ", "emoji 🙂👨‍👩‍👧", "rtl שלום", "zero​width", "very-long", "a,b,c", "tail   "}

func c14Session(t *rapid.T) {
	acts := plainActions(t)
	n := rapid.SampledFrom([]int{0, 1, 3, 15, 120}).Draw(t, "nitems")
	read0 := rapid.IntRange(0, 4).Draw(t, "read0") == 0
	var items []string
	for i := 0; i < n; i++ {
		it := rapid.SampledFrom(c14Items).Draw(t, "item")
		if it == "very-long" {
			it = strings.Repeat("long漢 ", rapid.SampledFrom([]int{50, 2000, 8000}).Draw(t, "longN"))
		}
		if read0 && rapid.IntRange(0, 3).Draw(t, "multiline") == 0 {
			it = it + "\nsecond line\n\tthird"
		}
		items = append(items, it)
	}
	sep := "\n"
	var args []string
	if read0 {
		sep = "\x00"
		args = append(args, "--read0")
	}
	pick := func(label string, opts ...string) {
		if o := rapid.SampledFrom(opts).Draw(t, label); o != "" {
			args = append(args, strings.Split(o, "\x1f")...)
		}
	}
	pick("layout", "", "--layout=reverse", "--layout=reverse-list")
	pick("border", "", "", "--border", "--border=double", "--border=horizontal", "--border=left", "--border=block", "--border=none")
	pick("listBorder", "", "", "--list-border", "--list-border=sharp")
	pick("inputBorder", "", "", "--input-border", "--input-border=bold")
	pick("headerBorder", "", "--header-border", "--header-lines-border")
	pick("margin", "", "", "--margin=1", "--margin=10%,20%", "--margin=0,40%", "--margin=45%")
	pick("padding", "", "", "--padding=1", "--padding=5%,10%", "--padding=30%")
	pick("height", "", "", "", "--height=10", "--height=50%", "--height=~10", "--height=~100%", "--height=1", "--height=3", "--height=-2", "--height=100%")
	pick("info", "", "--info=inline", "--info=hidden", "--info=inline-right", "--info=right")
	pick("header", "", "", "--header=HEAD", "--header=H1\nH2\nH3", "--header-lines=2", "--header-lines=2\x1f--header=H", "--header-first\x1f--header=X")
	pick("preview", "", "", "--preview=echo {}", "--preview=echo {}; echo {q}", "--preview=sleep 5; echo {}", "--preview=printf 'x\\n%.0s' $(seq 300)", "--preview=cat {f}", "--preview=echo {+} {n}")
	pick("previewWindow", "", "", "--preview-window=up", "--preview-window=down,1", "--preview-window=left,70%", "--preview-window=right,wrap,follow", "--preview-window=hidden", "--preview-window=border-none,~2", "--preview-window=up,99%")
	pick("wrap", "", "", "--wrap", "--wrap\x1f--wrap-sign=>>")
	pick("gap", "", "", "--gap", "--gap=3")
	pick("misc", "", "--no-input", "--multi", "--multi=2", "--cycle", "--track", "--no-hscroll", "--keep-right", "--scroll-off=5", "--tabstop=1", "--tabstop=16", "--ellipsis=…", "--ellipsis=", "--pointer=>>", "--marker=**",
		"--no-unicode", "--highlight-line", "--ansi", "--tac", "--no-sort", "--exact", "--no-separator", "--scrollbar=|", "--no-scrollbar", "--style=full", "--style=minimal", "--ghost=search", "--prompt=", "--prompt=very long prompt text > ", "--info-command=echo c", "--border-label= B ", "--with-nth=1", "--no-bold", "--no-color", "--color=bw", "--footer=F")
	w := rapid.SampledFrom([]int{1, 2, 3, 5, 10, 19, 40, 80, 220}).Draw(t, "width")
	h := rapid.SampledFrom([]int{1, 2, 3, 4, 5, 8, 24, 70}).Draw(t, "height_rows")
	input := strings.Join(items, sep)
	if n > 0 {
		input += sep
	}
	s := StartSession(t, SessionCfg{Args: args, Input: []byte(input), Width: w, Height: h})
	defer s.Close()
	history := []string{fmt.Sprintf("fzf %q  (%d items, window %dx%d)", args, n, w, h)}
	if s.Port == 0 {
		// exited before listening: must be a clean option error / immediate exit
		code, _ := s.WaitExit(5 * time.Second)
		c14Hygiene(t, s, history, code, false, true)
		vstat.Case("C14/session", strings.Join(history, "|"), false, "exited_at_start")
		return
	}
	nsteps := rapid.IntRange(3, 25).Draw(t, "steps")
	tiny, childAtExit := w < 20 || h < 6, false
	alive := true
	checkAlive := func(step string) bool {
		if _, exited := s.ExitStatus(); exited {
			return false
		}
		// the process must keep answering; execute-silent / transform block the UI briefly
		// "stops responding" = no answer for 30 s while the process is idle, or no answer
		// for 300 s at all (rendering huge wrapped lines in a tiny window can take a while)
		start := time.Now()
		lastTicks, lastProgress := s.cpuTicks(), time.Now()
		for {
			if _, err := s.Get(0, 0); err == nil {
				return true
			}
			if _, exited := s.ExitStatus(); exited {
				return false
			}
			if tk := s.cpuTicks(); tk != lastTicks {
				lastTicks, lastProgress = tk, time.Now()
			}
			if time.Since(lastProgress) > 30*time.Second || time.Since(start) > 300*time.Second {
				break
			}
			time.Sleep(20 * time.Millisecond)
		}
		if pt := s.panicText(); pt != "" {
			t.Fatalf("fzf crashed after %s\nhistory:\n  %s\n%s", step, strings.Join(history, "\n  "), pt)
		}
		dump := s.GoroutineDump()
		t.Fatalf("fzf stopped responding after %s (no answer to GET: idle for 30 s or busy for 300 s, process alive=%v)\nscreen:\n%s\nhistory:\n  %s\ngoroutines:\n%s", step, s.Alive(), strings.Join(s.Capture(), "\n"), strings.Join(history, "\n  "), dump)
		return false
	}
	for i := 0; i < nsteps && alive; i++ {
		var step string
		switch rapid.SampledFrom([]string{"plain", "plain", "plain", "arg", "arg", "keys", "keys", "resize", "resize-one-way", "chain", "mouse", "mouse"}).Draw(t, "kind") {
		case "resize-one-way":
			// only the height or only the width changes (a window above/below or beside the list keeps its other extent)
			if rapid.Bool().Draw(t, "heightOnly") {
				h = rapid.SampledFrom([]int{3, 6, 10, 13, 25, 40}).Draw(t, "newH")
			} else {
				w = rapid.SampledFrom([]int{9, 20, 40, 61, 100, 150}).Draw(t, "newW")
			}
			step = fmt.Sprintf("resize %dx%d", w, h)
			s.Resize(w, h)
			if w < 20 || h < 6 {
				tiny = true
			}
		case "mouse":
			// a gesture in SGR mouse reports: press, a few drag reports, release - on the edges of the
			// window (scrollbar, borders), inside it and outside of it
			xs := []int{1, 2, 3, w / 2, w - 3, w - 2, w - 1, w, w, w + 5}
			ys := []int{1, 2, 3, h / 2, h - 3, h - 2, h - 1, h, h + 5}
			pt := func(label string) (int, int) {
				return rapid.SampledFrom(xs).Draw(t, label+"X"), rapid.SampledFrom(ys).Draw(t, label+"Y")
			}
			btn := rapid.SampledFrom([]int{0, 0, 0, 2, 1}).Draw(t, "button")
			x, y := pt("press")
			var bs []byte
			bs = append(bs, fmt.Sprintf("\x1b[<%d;%d;%dM", btn, x, y)...)
			for k := rapid.IntRange(0, 3).Draw(t, "drags"); k > 0; k-- {
				x, y = pt("drag")
				bs = append(bs, fmt.Sprintf("\x1b[<%d;%d;%dM", 32+btn, x, y)...)
			}
			if rapid.IntRange(0, 4).Draw(t, "release") > 0 {
				bs = append(bs, fmt.Sprintf("\x1b[<%d;%d;%dm", btn, x, y)...)
			}
			if rapid.Bool().Draw(t, "edgeSweep") {
				// the same gesture from every column near the right edge (scrollbar / border columns differ
				// with the options) on a few rows, dragged to the top and to the bottom of the terminal
				bs = bs[:0]
				for cx := w - 3; cx <= w; cx++ {
					for _, cy := range []int{2, 3, 4, h / 2, h - 2, h - 3, h - 4} {
						if cx < 1 || cy < 1 {
							continue
						}
						bs = append(bs, fmt.Sprintf("\x1b[<0;%d;%dM\x1b[<32;%d;1M\x1b[<32;%d;%dM\x1b[<0;%d;%dm", cx, cy, cx, cx, h, cx, h)...)
					}
				}
			}
			step = fmt.Sprintf("mouse %q", bs)
			s.SendHex(bs)
		case "plain":
			a := rapid.SampledFrom(acts).Draw(t, "action")
			step = "POST " + a
			s.Post(a)
		case "arg":
			a := rapid.SampledFrom(c14ArgActions).Draw(t, "argAction")
			step = "POST " + a
			s.Post(a)
		case "chain":
			k := rapid.IntRange(2, 5).Draw(t, "chainLen")
			var parts []string
			for j := 0; j < k; j++ {
				if rapid.Bool().Draw(t, "chainArg") {
					parts = append(parts, rapid.SampledFrom(c14ArgActions).Draw(t, "argAction"))
				} else {
					parts = append(parts, rapid.SampledFrom(acts).Draw(t, "action"))
				}
			}
			step = "POST " + strings.Join(parts, "+")
			s.Post(strings.Join(parts, "+"))
		case "keys":
			k := rapid.IntRange(1, 4).Draw(t, "nkeys")
			var bs []byte
			for j := 0; j < k; j++ {
				bs = append(bs, rapid.SampledFrom(c14Keys).Draw(t, "key")...)
			}
			// a burst may end in the middle of a key sequence (the rest arrives late or
			// never), and a byte of a sequence may be wrong
			switch rapid.IntRange(0, 5).Draw(t, "tail") {
			case 0, 1:
				seq := []byte(rapid.SampledFrom(c14Sequences).Draw(t, "seq"))
				bs = append(bs, seq[:rapid.IntRange(1, len(seq)).Draw(t, "cut")]...)
			case 2:
				seq := append([]byte{}, rapid.SampledFrom(c14Sequences).Draw(t, "seq")...)
				seq[rapid.IntRange(1, len(seq)-1).Draw(t, "at")] = rapid.SampledFrom([]byte("0159;~AZaz<M[O \x1b\x7f\x00")).Draw(t, "wrong")
				bs = append(bs, seq[:rapid.IntRange(1, len(seq)).Draw(t, "cut")]...)
			}
			step = fmt.Sprintf("keys %q", bs)
			s.SendHex(bs)
		case "resize":
			w = rapid.SampledFrom([]int{1, 2, 4, 9, 20, 61, 150}).Draw(t, "newW")
			h = rapid.SampledFrom([]int{1, 2, 3, 6, 13, 40}).Draw(t, "newH")
			step = fmt.Sprintf("resize %dx%d", w, h)
			s.Resize(w, h)
			if w < 20 || h < 6 {
				tiny = true
			}
		}
		history = append(history, step)
		alive = checkAlive(step)
	}
	end := "already-exited"
	if alive {
		end = rapid.SampledFrom([]string{"accept", "abort", "SIGTERM", "SIGINT", "accept-during-preview", "abort-during-reload"}).Draw(t, "end")
		switch end {
		case "accept", "abort":
			s.Post(end)
		case "SIGTERM":
			s.Signal(syscall.SIGTERM)
		case "SIGINT":
			// by design SIGINT is left to the running command while an execute/transform
			// command is in progress: repeat it until fzf is idle enough to take it
			for k := 0; k < 10; k++ {
				s.Signal(syscall.SIGINT)
				if _, ok := s.WaitExit(2 * time.Second); ok {
					break
				}
			}
		case "accept-during-preview":
			s.Post("change-preview-window(right,50%)+preview(sleep 30; echo never)")
			time.Sleep(time.Duration(rapid.IntRange(0, 120).Draw(t, "previewHeadStartMs")) * time.Millisecond)
			childAtExit = true
			s.Post("accept")
		case "abort-during-reload":
			s.Post("reload(sleep 30; echo never)")
			time.Sleep(time.Duration(rapid.IntRange(0, 120).Draw(t, "reloadHeadStartMs")) * time.Millisecond)
			childAtExit = true
			s.Post("abort")
		}
		history = append(history, "end: "+end)
	}
	code, ok := s.WaitExit(30 * time.Second)
	if !ok {
		if pt := s.panicText(); pt != "" {
			t.Fatalf("fzf crashed at exit\nhistory:\n  %s\n%s", strings.Join(history, "\n  "), pt)
		}
		dump := s.GoroutineDump()
		t.Fatalf("fzf did not exit within 30 s after %s (alive=%v)\nscreen:\n%s\nhistory:\n  %s\ngoroutines:\n%s", end, s.Alive(), strings.Join(s.Capture(), "\n"), strings.Join(history, "\n  "), dump)
	}
	known := c14Hygiene(t, s, history, code, end == "accept-during-preview" || strings.Contains(strings.Join(args, " "), "--preview=sleep 5"), false)
	nt := tiny || childAtExit
	labels := []string{"end=" + end, fmt.Sprintf("tiny=%v", tiny), fmt.Sprintf("child_at_exit=%v", childAtExit)}
	if known {
		labels = append(labels, "known:"+kfPreviewSurvives)
	}
	vstat.Case("C14/session", strings.Join(history, "|"), nt, labels...)
	if nt && vstat.WantSample("C14/session") {
		vstat.Sample("C14/session", history)
	}
}

var privModeRe = regexp.MustCompile(`\x1b\[\?([0-9]+)([hl])`)

// c14Hygiene checks what fzf left behind. It returns true when the only
// deviation is the listed known finding.
func c14Hygiene(t *rapid.T, s *Session, history []string, code int, previewMayRun bool, startFailure bool) bool {
	h := strings.Join(history, "\n  ")
	if pt := s.panicText(); pt != "" {
		t.Fatalf("panic output\nhistory:\n  %s\n%s", h, pt)
	}
	okCodes := map[int]bool{0: true, 1: true, 130: true}
	if startFailure {
		okCodes[2] = true
	}
	if !okCodes[code] {
		t.Fatalf("exit status %d (stderr %q)\nhistory:\n  %s", code, s.Stderr(), h)
	}
	// 1. tty settings
	var before, after []byte
	for i := 0; i < 3000; i++ {
		before, _ = os.ReadFile(filepath.Join(s.Dir, "stty.before"))
		after, _ = os.ReadFile(filepath.Join(s.Dir, "stty.after"))
		if len(after) > 0 && after[len(after)-1] == '\n' {
			break
		}
		time.Sleep(10 * time.Millisecond)
	}
	if len(after) == 0 {
		// the wrapper shell has not got to run stty within 30 s after fzf exited (machine overloaded)
		infra(t, "stty.after was not written within 30 s")
	}
	if string(before) != string(after) {
		t.Fatalf("terminal settings not restored: stty -g before %q, after %q\nhistory:\n  %s", strings.TrimSpace(string(before)), strings.TrimSpace(string(after)), h)
	}
	// 2. private modes switched on must be switched off again
	// the log is written by tmux pipe-pane asynchronously: give the tail a moment to arrive
	modeProblem := ""
	for attempt := 0; attempt < 60; attempt++ {
		raw, _ := os.ReadFile(filepath.Join(s.Dir, "rawlog"))
		final := map[string]string{}
		for _, m := range privModeRe.FindAllSubmatch(raw, -1) {
			final[string(m[1])] = string(m[2])
		}
		modeProblem = ""
		for _, mode := range []string{"1049", "1000", "1002", "1003", "1006", "1015", "2004"} {
			if final[mode] == "h" {
				modeProblem = fmt.Sprintf("terminal mode ?%s was switched on and never off", mode)
			}
		}
		for _, mode := range []string{"25", "7"} {
			if final[mode] == "l" {
				modeProblem = fmt.Sprintf("terminal mode ?%s (cursor / autowrap) was switched off and never on again", mode)
			}
		}
		if modeProblem == "" {
			break
		}
		time.Sleep(50 * time.Millisecond)
	}
	if modeProblem != "" {
		t.Fatalf("%s\nhistory:\n  %s", modeProblem, h)
	}
	if flags := s.Display("#{alternate_on} #{mouse_any_flag} #{mouse_button_flag} #{mouse_standard_flag} #{mouse_sgr_flag}"); flags != "0 0 0 0 0" {
		t.Fatalf("terminal left in alternate screen / mouse mode: alternate,any,button,standard,sgr = %s\nhistory:\n  %s", flags, h)
	}
	// 3 + 4. temp files and child processes (children get a moment to die of the signal fzf sent)
	var procs, temps []string
	deadline := time.Now().Add(3 * time.Second)
	for {
		procs, temps = nil, s.TempFiles()
		for _, p := range s.TaggedProcesses() {
			if strings.Contains(p, "sleep 1000000") || strings.Contains(p, "script.sh") {
				continue // the pane's own shell
			}
			procs = append(procs, p)
		}
		if len(procs) == 0 && len(temps) == 0 || time.Now().After(deadline) {
			break
		}
		time.Sleep(50 * time.Millisecond)
	}
	if len(procs) > 0 || len(temps) > 0 {
		onlyPreview := previewMayRun
		for _, p := range procs {
			if !strings.Contains(p, "sleep 30; echo never") && !strings.Contains(p, "sleep 30") && !strings.Contains(p, "sleep 5") {
				onlyPreview = false
			}
		}
		for _, f := range temps {
			if !strings.HasPrefix(f, "fzf-preview-") && !strings.HasPrefix(f, "fzf-temp-") {
				onlyPreview = false
			}
		}
		if onlyPreview && vstat.Known("C14", kfPreviewSurvives, fmt.Sprintf("processes %v temp files %v", procs, temps)) {
			return true
		}
		t.Fatalf("left behind after exit (status %d): processes %v, temp files %v\nhistory:\n  %s", code, procs, temps, h)
	}
	return false
}

func TestVerifC14_Sessions(t *testing.T) {
	rapid.Check(t, c14Session)
}

// Exit while a preview with a {f} temporary file is being (re)started.
func TestVerifC14_PreviewTempFileAtExit(t *testing.T) {
	rapid.Check(t, func(t *rapid.T) {
		stopBurn := make(chan struct{})
		for b := 0; b < 6; b++ {
			go func() {
				x := 0
				for {
					select {
					case <-stopBurn:
						return
					default:
						for i := 0; i < 100000; i++ {
							x += i
						}
					}
				}
			}()
		}
		defer close(stopBurn)
		cmdline := rapid.SampledFrom([]string{"cat {f}", "cat {+f}; sleep 30", "sleep 0.05; cat {f}"}).Draw(t, "preview")
		s := StartSession(t, SessionCfg{Args: []string{"--no-mouse", "--multi", "--preview", cmdline}, Input: []byte("a\nb\nc\nd\n"), Width: 60, Height: 10})
		defer s.Close()
		if _, ok := s.WaitFor(10, func(st *Status) bool { return !st.Reading && st.MatchCount == 4 }); !ok {
			infra(t, "did not settle")
		}
		n := rapid.IntRange(1, 6).Draw(t, "refreshes")
		history := []string{cmdline}
		for i := 0; i < n; i++ {
			a := rapid.SampledFrom([]string{"refresh-preview", "down", "up", "toggle"}).Draw(t, "action")
			s.Post(a)
			history = append(history, a)
			time.Sleep(time.Duration(rapid.SampledFrom([]int{0, 0, 1, 5}).Draw(t, "gapMs")) * time.Millisecond)
		}
		end := rapid.SampledFrom([]string{"abort", "accept", "SIGTERM"}).Draw(t, "end")
		history = append(history, end)
		if end == "SIGTERM" {
			s.Signal(syscall.SIGTERM)
		} else {
			s.Post(end)
		}
		code, ok := s.WaitExit(20 * time.Second)
		if !ok {
			t.Fatalf("fzf did not exit: %v", history)
		}
		vstat.Case("C14/preview-tempfile-at-exit", strings.Join(history, "|"), true, "end="+end)
		c14Hygiene(t, s, history, code, false, false)
	})
}

// Histories that crashed fzf before a repair (KNOWN_FINDINGS.txt "fixed:" lines);
// they bypass the generator.
func TestVerifC14_Regress(t *testing.T) {
	type script struct {
		name  string
		args  []string
		input string
		w, h  int
		posts []string
	}
	scripts := []script{
		{"offset-up-page-down-reverse", []string{"--read0", "--layout=reverse"}, "a\x00b\x00", 80, 24, []string{"offset-up+page-down"}},
		{"offset-down-page-up-default", []string{"--gap"}, "a\nb\n", 80, 24, []string{"offset-down+page-up"}},
		{"offset-up-page-down-empty", []string{"--wrap", "--layout=reverse-list"}, "", 40, 10, []string{"offset-up+page-down", "offset-down+page-up"}},
		{"offset-down-half-page", []string{"--read0", "--layout=reverse"}, "a\nb\x00c\x00", 30, 6, []string{"offset-up+half-page-down", "offset-up+offset-up+page-down", "offset-down+offset-down+half-page-up"}},
	}
	rapid.Check(t, func(t *rapid.T) {
		sc := scripts[rapid.IntRange(0, len(scripts)-1).Draw(t, "script")]
		s := StartSession(t, SessionCfg{Args: sc.args, Input: []byte(sc.input), Width: sc.w, Height: sc.h})
		defer s.Close()
		history := []string{fmt.Sprintf("fzf %q input %q (%dx%d)", sc.args, sc.input, sc.w, sc.h)}
		if _, ok := s.WaitFor(10, func(st *Status) bool { return !st.Reading }); !ok {
			infra(t, "did not settle")
		}
		for _, p := range sc.posts {
			s.Post(p)
			history = append(history, "POST "+p)
			if _, ok := s.WaitFor(10, func(st *Status) bool { return true }); !ok {
				if pt := s.panicText(); pt != "" {
					t.Fatalf("fzf crashed after %s\nhistory:\n  %s\n%s", p, strings.Join(history, "\n  "), pt)
				}
				t.Fatalf("fzf stopped answering after %s\nhistory:\n  %s", p, strings.Join(history, "\n  "))
			}
		}
		s.Post("abort")
		code, ok := s.WaitExit(20 * time.Second)
		if !ok {
			t.Fatalf("fzf did not exit: %v", history)
		}
		vstat.Case("C14/regress", sc.name, true, "script="+sc.name)
		c14Hygiene(t, s, history, code, false, false)
	})
}

// Header lines arriving while the coordinator serves search requests: the
// reader publishes the header for every line it takes, the coordinator takes
// snapshots of the list for every query change. The session must keep going.
func TestVerifC14_HeaderLinesWhileSearching(t *testing.T) {
	rapid.Check(t, func(t *rapid.T) {
		n := rapid.SampledFrom([]int{20000, 100000, 300000}).Draw(t, "lines")
		hl := n
		if rapid.Bool().Draw(t, "someItems") {
			hl = n - 1000
		}
		viaReload := rapid.Bool().Draw(t, "viaReload")
		args := []string{"--no-mouse", fmt.Sprintf("--header-lines=%d", hl)}
		input := []byte("first\n")
		src := fmt.Sprintf("seq %d", n)
		if rapid.Bool().Draw(t, "withNth") {
			args = append(args, "--with-nth=1")
		}
		var s *Session
		if viaReload {
			s = StartSession(t, SessionCfg{Args: args, Input: input, Width: 80, Height: 12})
		} else {
			s = StartSession(t, SessionCfg{Args: args, InputCmd: src, Width: 80, Height: 12})
		}
		defer s.Close()
		history := []string{fmt.Sprintf("fzf %q over %s (reload=%v)", args, src, viaReload)}
		if viaReload {
			s.Post("reload(" + src + ")")
		}
		posts := rapid.IntRange(20, 120).Draw(t, "posts")
		for i := 0; i < posts; i++ {
			a := "put(1)"
			if i%2 == 1 {
				a = "backward-delete-char"
			}
			if _, err := s.Post(a); err != nil {
				break
			}
		}
		history = append(history, fmt.Sprintf("%d alternating put(1) / backward-delete-char", posts))
		want := n - hl
		st, ok := s.WaitFor(1, func(st *Status) bool { return !st.Reading && st.TotalCount == want })
		vstat.Case("C14/header-lines-while-searching", strings.Join(history, "|"), true, fmt.Sprintf("reload=%v", viaReload))
		if !ok {
			if pt := s.panicText(); pt != "" {
				t.Fatalf("fzf crashed\nhistory:\n  %s\n%s", strings.Join(history, "\n  "), pt)
			}
			t.Fatalf("the input is never loaded completely (state %s, expected %d items)\nhistory:\n  %s\ngoroutines:\n%s", describe(st), want, strings.Join(history, "\n  "), s.GoroutineDump())
		}
		s.Post("change-query(zz)")
		if st, ok := s.WaitFor(1, func(st *Status) bool { return st.Query == "zz" }); !ok {
			t.Fatalf("fzf stopped executing actions (state %s)\nhistory:\n  %s\ngoroutines:\n%s", describe(st), strings.Join(history, "\n  "), s.GoroutineDump())
		}
		s.Post("abort")
		code, ok := s.WaitExit(20 * time.Second)
		if !ok {
			t.Fatalf("fzf did not exit\nhistory:\n  %s\ngoroutines:\n%s", strings.Join(history, "\n  "), s.GoroutineDump())
		}
		c14Hygiene(t, s, history, code, false, false)
	})
}

// Long searches (several progress reports) that overlap with a running
// execute / transform command: the session must keep going - answer, take
// further actions and exit.
func TestVerifC14_SearchProgressWhileExecuting(t *testing.T) {
	rapid.Check(t, func(t *rapid.T) {
		n := rapid.SampledFrom([]int{1200000, 2000000}).Draw(t, "lines")
		s := StartSession(t, SessionCfg{Args: []string{"--no-mouse"}, InputCmd: fmt.Sprintf("seq %d", n), Width: 80, Height: 12})
		defer s.Close()
		if _, ok := s.WaitFor(1, func(st *Status) bool { return !st.Reading && st.TotalCount == n }); !ok {
			infra(t, "input was not loaded")
		}
		history := []string{fmt.Sprintf("seq %d | fzf", n)}
		rounds := rapid.IntRange(1, 3).Draw(t, "rounds")
		for r := 0; r < rounds; r++ {
			q := rapid.SampledFrom([]string{"1", "12", "1 2", "9 1", "135"}).Draw(t, "query")
			cmd := rapid.SampledFrom([]string{"execute-silent(sleep 0.8)", "execute(sleep 0.6)", "transform-header(sleep 0.7; echo H)", "transform-query(sleep 0.5; echo 77)"}).Draw(t, "command")
			gap := rapid.SampledFrom([]int{0, 20, 120, 250}).Draw(t, "gapMs")
			s.Post("change-query(" + q + ")")
			time.Sleep(time.Duration(gap) * time.Millisecond)
			s.Post(cmd)
			history = append(history, fmt.Sprintf("POST change-query(%s), %d ms, POST %s", q, gap, cmd))
			// the command blocks the UI for its duration: then the session must answer again
			ok := false
			for deadline := time.Now().Add(25 * time.Second); time.Now().Before(deadline); time.Sleep(100 * time.Millisecond) {
				if st, err := s.Get(1, 0); err == nil && !st.Reading {
					ok = true
					break
				}
			}
			if !ok {
				t.Fatalf("fzf stopped answering\nhistory:\n  %s\ngoroutines:\n%s", strings.Join(history, "\n  "), s.GoroutineDump())
			}
		}
		s.Post("change-query(zz)")
		if _, ok := s.WaitFor(1, func(st *Status) bool { return st.Query == "zz" }); !ok {
			t.Fatalf("fzf stopped executing actions\nhistory:\n  %s\ngoroutines:\n%s", strings.Join(history, "\n  "), s.GoroutineDump())
		}
		s.Post("abort")
		code, ok := s.WaitExit(20 * time.Second)
		if !ok {
			t.Fatalf("fzf did not exit\nhistory:\n  %s\ngoroutines:\n%s", strings.Join(history, "\n  "), s.GoroutineDump())
		}
		vstat.Case("C14/search-progress-while-executing", strings.Join(history, "|"), true, fmt.Sprintf("lines=%d", n))
		c14Hygiene(t, s, history, code, false, false)
	})
}
