//go:build verif

package proc

import (
	"encoding/json"
	"fmt"
	"os"
	"path/filepath"
	"regexp"
	"strconv"
	"strings"
	"testing"
	"time"

	"pgregory.net/rapid"
	"verif.local/vstat"
)

// C15 - the screen shows the actual state. After every step of a history the
// captured pane is compared with the state reported by GET.

type screenCfg struct {
	layout      string
	info        string // default | inline | hidden | inline-right | right
	multi       bool
	width       int
	height      int
	headers     []string // --header lines
	headerLines []string // first N input lines
	prompt      string
	noSeparator bool // --no-separator
	headerOff   bool // the header was hidden (hide-header / toggle-header)
}

var inlineInfoTail = regexp.MustCompile(`\s+[-< ]*(?:\d+/\d+(?: \(\d+(?:/\d+)?\))?[- ]*(?:\.\.)?|\d*/?\d*\.\.)\s*$`)
var infoRe = regexp.MustCompile(`(\d+)/(\d+)(?: \((\d+)(?:/\d+)?\))?`)

func rowWidth(s string) int {
	w := 0
	for _, r := range s {
		switch {
		case r >= 0x1100 && (r <= 0x115f || r >= 0x2e80 && r <= 0xa4cf || r >= 0xac00 && r <= 0xd7a3 || r >= 0xf900 && r <= 0xfaff || r >= 0xfe30 && r <= 0xfe6f || r >= 0xff00 && r <= 0xff60 || r >= 0xffe0 && r <= 0xffe6):
			w += 2
		default:
			w++
		}
	}
	return w
}

// matchRow tells whether the text of a screen row shows the given line:
// complete when it fits, otherwise cut with the ellipsis ".." at either end.
// Lines may contain the single-width letter "é": for the exact comparison it
// is replaced by a one-byte stand-in on both sides (screen and state), so that
// byte offsets are cell offsets.
func fold(s string) string { return strings.ReplaceAll(s, "é", "#") }

func foldStatus(st *Status) *Status {
	c := *st
	c.Query = fold(st.Query)
	if st.Current != nil {
		cur := *st.Current
		cur.Text = fold(cur.Text)
		c.Current = &cur
	}
	c.Matches = make([]StatusItem, len(st.Matches))
	for i, m := range st.Matches {
		c.Matches[i] = StatusItem{m.Index, fold(m.Text)}
	}
	c.Selected = make([]StatusItem, len(st.Selected))
	for i, m := range st.Selected {
		c.Selected[i] = StatusItem{m.Index, fold(m.Text)}
	}
	return &c
}

func matchRow(text string, line string, avail int) (ok bool, truncated bool) {
	if text == strings.TrimRight(line, " ") {
		return true, false // the whole line is shown (rows wider than the window are rejected separately)
	}
	if rowWidth(line) != len([]rune(line)) {
		// a line with double-width characters (they follow an ASCII head that every query matches
		// in, so the row is never scrolled): only widths are compared. A line wider than the text
		// columns is cut at the right with the ellipsis and stays within them.
		if rowWidth(line) <= avail {
			return false, false
		}
		core := strings.TrimRight(strings.TrimSuffix(text, ".."), " ")
		return strings.HasSuffix(text, "..") && core != "" && strings.HasPrefix(line, core) && rowWidth(text) <= avail, true
	}
	if len(line) <= avail {
		return false, false
	}
	core := text
	cut := false
	if strings.HasSuffix(core, "..") {
		core = strings.TrimSuffix(core, "..")
		cut = true
	}
	if strings.HasPrefix(core, "..") {
		core = strings.TrimPrefix(core, "..")
		cut = true
	}
	if !cut || core == "" {
		return false, false
	}
	// what remains is a piece of the line (trailing blanks of the piece are not visible)
	return strings.Contains(line, core) || strings.Contains(line, strings.TrimRight(core, " ")), true
}

func checkScreen(rawRows []string, rawSt *Status, cfg screenCfg) (string, bool) {
	rows := make([]string, len(rawRows))
	for i, r := range rawRows {
		rows[i] = fold(r)
	}
	st := foldStatus(rawSt)
	hl := make([]string, len(cfg.headerLines))
	for i, h := range cfg.headerLines {
		hl[i] = fold(h)
	}
	cfg.headerLines = hl
	// drop the empty rows tmux appends below the used area? keep all: fzf uses the full pane
	for len(rows) > cfg.height {
		rows = rows[:len(rows)-1]
	}
	for i, r := range rows {
		if rowWidth(r) > cfg.width {
			return fmt.Sprintf("row %d is %d cells wide in a window of %d columns: %q", i, rowWidth(r), cfg.width, r), false
		}
	}
	sel := map[int]bool{}
	for _, s := range st.Selected {
		sel[s.Index] = true
	}
	resultIdx := map[string]int{} // line text -> rank
	for i, m := range st.Matches {
		resultIdx[m.Text] = i
	}
	role := make([]string, len(rows)) // "", prompt, info, header, list
	rank := make([]int, len(rows))
	// prompt
	promptRows := 0
	for i, r := range rows {
		t := strings.TrimRight(r, " ")
		want := strings.TrimRight(cfg.prompt+st.Query, " ")
		if len(cfg.prompt+st.Query) >= cfg.width-4 && strings.HasPrefix(r, cfg.prompt) && t != want {
			// a query wider than the window is scrolled: the row shows the prompt and a piece of the query
			piece := strings.TrimSpace(r[len(cfg.prompt):])
			if cfg.info == "inline" || cfg.info == "inline-right" {
				// the counter shares the row (after the query, or at the right edge)
				if i := strings.LastIndex(piece, "  <"); cfg.info == "inline" && i >= 0 {
					piece = piece[:i] // "  < 12/34 (5) ----", whole or cut by the window
				}
				piece = strings.TrimSpace(inlineInfoTail.ReplaceAllString(piece, ""))
			}
			if piece != "" && strings.Contains(st.Query, piece) {
				role[i] = "prompt"
				promptRows++
				continue
			}
		}
		if cfg.info == "inline" {
			if strings.HasPrefix(r, cfg.prompt+st.Query) && infoRe.MatchString(r[len(cfg.prompt+st.Query):]) {
				role[i] = "prompt"
				promptRows++
				m := infoRe.FindStringSubmatch(r[len(cfg.prompt+st.Query):])
				if tr := strings.TrimRight(r, " "); strings.HasSuffix(tr, "..") {
					// the info itself is cut by the window: what is left of it is the beginning of the full text
					full := fmt.Sprintf("%d/%d", st.MatchCount, st.TotalCount)
					if cfg.multi {
						full += fmt.Sprintf(" (%d)", len(st.Selected))
					}
					shown := strings.TrimSuffix(tr, "..")
					if i := strings.LastIndex(shown, "< "); i >= 0 && strings.HasPrefix(full, strings.TrimRight(shown[i+2:], " ")) {
						continue
					}
				}
				if msg := checkInfo(m, st, cfg); msg != "" {
					return msg + fmt.Sprintf(" (row %q)", r), false
				}
			} else if strings.HasPrefix(r, cfg.prompt+st.Query) {
				// no room for the counter after the query: the row shows the query and at most a cut separator
				full := fmt.Sprintf("  < %d/%d (%d)", st.MatchCount, st.TotalCount, len(st.Selected))
				if rest := strings.TrimSpace(r[len(cfg.prompt+st.Query):]); len(cfg.prompt+st.Query)+len(full) >= cfg.width-1 && (rest == "" || rest == "<" || strings.HasPrefix(rest, "< ")) {
					role[i] = "prompt"
					promptRows++
				}
			}
		} else if cfg.info == "inline-right" {
			if strings.HasPrefix(r, cfg.prompt+st.Query) {
				rest := strings.TrimSpace(r[len(cfg.prompt+st.Query):])
				m := infoRe.FindStringSubmatch(rest)
				if m != nil && m[0] == rest {
					role[i] = "prompt"
					promptRows++
					if msg := checkInfo(m, st, cfg); msg != "" {
						return msg + fmt.Sprintf(" (row %q)", r), false
					}
				} else if need := len(cfg.prompt+st.Query) + 2 + len(fmt.Sprintf("%d/%d (%d)", st.MatchCount, st.TotalCount, len(st.Selected))); need >= cfg.width-2 {
					// no room for the whole counter: whatever is left of it is cut
					role[i] = "prompt"
					promptRows++
				} else if rest == "" && t == want {
					// the counter is on the right edge of the prompt row whenever there is room for it
					need := len(cfg.prompt+st.Query) + 2 + len(fmt.Sprintf("%d/%d (%d)", st.MatchCount, st.TotalCount, len(st.Selected)))
					if need < cfg.width-2 {
						return fmt.Sprintf("the prompt row %q does not show the match counter (%d/%d)", r, st.MatchCount, st.TotalCount), false
					}
					role[i] = "prompt"
					promptRows++
				}
			}
		} else if t == want {
			role[i] = "prompt"
			promptRows++
		}
	}
	if len(cfg.prompt+st.Query) < cfg.width-4 {
		if promptRows != 1 {
			return fmt.Sprintf("%d rows show the prompt line %q", promptRows, cfg.prompt+st.Query), false
		}
	}
	// info
	if cfg.info == "default" || cfg.info == "right" {
		found := 0
		for i, r := range rows {
			if role[i] != "" {
				continue
			}
			t := strings.TrimLeft(r, " ")
			if cfg.info == "right" {
				t = strings.TrimLeft(r, " -")
				if m := infoRe.FindStringSubmatch(t); m == nil || strings.TrimSpace(t) != m[0] || !strings.Contains(r, "-") && cfg.width >= 30 && !cfg.noSeparator {
					continue
				}
			}
			if m := infoRe.FindStringSubmatch(t); m != nil && strings.HasPrefix(t, m[0]) && (strings.Contains(t, "--") || strings.TrimSpace(t) == m[0] || cfg.width < 30) {
				if _, isLine := resultIdx[strings.TrimRight(r[minInt(2, len(r)):], " ")]; isLine {
					continue
				}
				role[i] = "info"
				found++
				if msg := checkInfo(m, st, cfg); msg != "" {
					return msg + fmt.Sprintf(" (row %q)", r), false
				}
			}
		}
		if found != 1 {
			return fmt.Sprintf("%d rows look like the info line (expected 1 showing %d/%d)", found, st.MatchCount, st.TotalCount), false
		}
	}
	// headers
	// text columns of a row: the window minus pointer, marker and the column kept free at the right edge
	avail := cfg.width - 3
	for _, h := range append(append([]string{}, cfg.headers...), cfg.headerLines...) {
		n := 0
		for i, r := range rows {
			if role[i] != "" || len(r) < 2 {
				continue
			}
			if ok, _ := matchRow(strings.TrimRight(r[2:], " "), h, avail); ok && r[0] == ' ' && r[1] == ' ' {
				role[i] = "header"
				n++
			}
		}
		if cfg.headerOff {
			if n != 0 {
				return fmt.Sprintf("header line %q is on the screen although the header is hidden", h), false
			}
		} else if n != 1 {
			return fmt.Sprintf("header line %q appears %d times on the screen", h, n), false
		}
	}
	// list rows
	truncated := false
	pointerRows, curRow := 0, -1
	for i, r := range rows {
		if role[i] != "" {
			continue
		}
		if strings.TrimSpace(r) == "" {
			continue
		}
		if strings.Trim(r, "- ") == "" && cfg.info != "default" && cfg.info != "right" {
			role[i] = "separator" // the separator line stays when the info is hidden / inline
			continue
		}
		if len(r) < 2 {
			return fmt.Sprintf("unexpected row %d: %q", i, r), false
		}
		text := strings.TrimRight(r[2:], " ")
		matched := -1
		for _, m := range st.Matches {
			if ok, tr := matchRow(text, m.Text, avail); ok {
				matched = resultIdx[m.Text]
				truncated = truncated || tr
				break
			}
		}
		if matched < 0 {
			return fmt.Sprintf("row %d %q shows neither a result line, a header, the prompt nor the info", i, r), false
		}
		role[i], rank[i] = "list", matched
		item := st.Matches[matched]
		isCur := st.Current != nil && item.Index == st.Current.Index
		switch r[0] {
		case '>':
			pointerRows++
			if !isCur {
				return fmt.Sprintf("the pointer is on row %d (%q) but the current item is #%d", i, r, curIndex(st)), false
			}
			curRow = i
		case ' ':
			if isCur {
				return fmt.Sprintf("row %d shows the current item %q without the pointer", i, item.Text), false
			}
		default:
			return fmt.Sprintf("row %d has %q in the pointer column: %q", i, r[0], r), false
		}
		wantMark := byte(' ')
		if sel[item.Index] {
			wantMark = '*'
		}
		if r[1] != wantMark {
			return fmt.Sprintf("row %d (%q, item #%d): marker column shows %q, selected=%v", i, r, item.Index, r[1], sel[item.Index]), false
		}
	}
	// contiguity, order and direction
	first, last := -1, -1
	for i := range rows {
		if role[i] == "list" {
			if first < 0 {
				first = i
			}
			last = i
		}
	}
	nlist := 0
	if first >= 0 {
		for i := first; i <= last; i++ {
			if role[i] != "list" {
				return fmt.Sprintf("row %d (%q, %s) lies between list rows", i, rows[i], role[i]), false
			}
			nlist++
			if i > first {
				step := rank[i] - rank[i-1]
				want := 1
				if cfg.layout == "default" {
					want = -1
				}
				if step != want {
					return fmt.Sprintf("list rows %d and %d show ranks %d and %d: not consecutive in the direction of --layout=%s", i-1, i, rank[i-1], rank[i], cfg.layout), false
				}
			}
		}
	}
	if st.MatchCount > 0 && st.Current != nil {
		if curRow < 0 || pointerRows != 1 {
			return fmt.Sprintf("current item #%d %q is not shown with the pointer (%d pointer rows)", st.Current.Index, st.Current.Text, pointerRows), false
		}
	}
	if st.MatchCount == 0 && nlist > 0 {
		return "list rows are shown although nothing matches", false
	}
	if nlist < minInt(st.MatchCount, len(st.Matches)) {
		// results are hidden: the window must be full
		for i, r := range rows {
			if role[i] == "" && strings.TrimSpace(r) == "" && i < cfg.height {
				return fmt.Sprintf("only %d of %d results are shown although row %d is empty", nlist, st.MatchCount, i), false
			}
		}
	}
	return "", truncated
}

func curIndex(st *Status) int {
	if st.Current == nil {
		return -1
	}
	return st.Current.Index
}

func minInt(a, b int) int {
	if a < b {
		return a
	}
	return b
}

func checkInfo(m []string, st *Status, cfg screenCfg) string {
	mc, _ := strconv.Atoi(m[1])
	tc, _ := strconv.Atoi(m[2])
	if mc != st.MatchCount || tc != st.TotalCount {
		return fmt.Sprintf("info shows %d/%d, the state is %d/%d", mc, tc, st.MatchCount, st.TotalCount)
	}
	if cfg.multi {
		if m[3] == "" {
			return "info does not show the number of selected items"
		}
		if sc, _ := strconv.Atoi(m[3]); sc != len(st.Selected) {
			return fmt.Sprintf("info shows %d selected, the state has %d", sc, len(st.Selected))
		}
	}
	return ""
}

// uniqueTokens builds the body of a long line from short tokens that occur in
// no other line, so that any visible piece of the line identifies it (needed
// when the row is scrolled horizontally to the match).
func uniqueTokens(i, k int, accent string) string {
	var sb strings.Builder
	for j := 0; j < k; j++ {
		fmt.Fprintf(&sb, "a%db%d%s ", i, j, accent)
	}
	return sb.String()
}

func c15Session(t *rapid.T) {
	n := rapid.SampledFrom([]int{0, 1, 3, 8, 25, 70}).Draw(t, "nlines")
	kinds := []string{"short", "short", "medium", "long", "spaces", "accent-medium", "accent-long", "wide"}
	lines := make([]string, n)
	for i := range lines {
		switch rapid.SampledFrom(kinds).Draw(t, "kind") {
		case "short":
			lines[i] = fmt.Sprintf("item-%03d ab", i)
		case "medium":
			lines[i] = fmt.Sprintf("item-%03d medium m%da text b-%d a", i, i, i*7)
		case "long":
			lines[i] = fmt.Sprintf("item-%03d %s end-%d", i, uniqueTokens(i, rapid.IntRange(8, 24).Draw(t, "rep"), ""), i)
		case "accent-medium":
			lines[i] = fmt.Sprintf("item-%03d café m%dé téxt b-%d a", i, i, i*7)
		case "accent-long":
			lines[i] = fmt.Sprintf("item-%03d %s énd-%d", i, uniqueTokens(i, rapid.IntRange(8, 24).Draw(t, "rep"), "é"), i)
		case "wide":
			// double-width characters: as many characters as the window has columns, or fewer, but more cells
			lines[i] = fmt.Sprintf("item-%03d w%d %s", i, i, strings.Repeat("漢字", rapid.IntRange(4, 30).Draw(t, "wideRep")))
		default:
			lines[i] = fmt.Sprintf("item-%03d   s%da   o%db   a  %d", i, i, i, i)
		}
	}
	var cfg screenCfg
	cfg.width = rapid.SampledFrom([]int{24, 30, 40, 61, 90}).Draw(t, "width")
	cfg.height = rapid.SampledFrom([]int{8, 10, 14, 24}).Draw(t, "height")
	cfg.layout = rapid.SampledFrom([]string{"default", "reverse", "reverse-list"}).Draw(t, "layout")
	cfg.info = rapid.SampledFrom([]string{"default", "default", "inline", "hidden", "inline-right", "right"}).Draw(t, "info")
	cfg.multi = rapid.Bool().Draw(t, "multi")
	cfg.prompt = "Q> "
	args := []string{"--no-mouse", "--no-scrollbar", "--no-unicode", "--pointer", ">", "--marker", "*", "--ellipsis", "..", "--prompt", cfg.prompt, "--layout=" + cfg.layout, "--info=" + cfg.info, "--color=bw"}
	hasWide := false
	for _, l := range lines {
		if rowWidth(l) != len([]rune(l)) {
			hasWide = true
		}
	}
	// rows with double-width characters are identified by their beginning: they are not scrolled
	if rapid.IntRange(0, 2).Draw(t, "hscroll") != 0 || hasWide {
		args = append(args, "--no-hscroll")
	}
	if rapid.IntRange(0, 2).Draw(t, "noSeparator") == 0 {
		cfg.noSeparator = true
		args = append(args, "--no-separator")
	}
	if cfg.multi {
		args = append(args, "--multi")
	}
	if !rapid.Bool().Draw(t, "sorted") {
		args = append(args, "--no-sort")
	}
	nh := rapid.IntRange(0, 2).Draw(t, "headerText")
	if nh > 0 {
		cfg.headers = []string{"HEADER-ONE", "HEADER-TWO x"}[:nh]
		args = append(args, "--header", strings.Join(cfg.headers, "\n"))
	}
	nhl := rapid.SampledFrom([]int{0, 0, 1, 2, 3}).Draw(t, "headerLines")
	if nhl > 0 {
		// the input may have fewer lines than --header-lines: all of them are header lines then
		cfg.headerLines = lines[:minInt(nhl, n)]
		args = append(args, fmt.Sprintf("--header-lines=%d", nhl))
	}
	if nh > 0 && rapid.IntRange(0, 3).Draw(t, "headerFirst") == 0 {
		args = append(args, "--header-first")
	}
	input := []byte{}
	if n > 0 {
		input = []byte(strings.Join(lines, "\n") + "\n")
	}
	s := StartSession(t, SessionCfg{Args: args, Input: input, Width: cfg.width, Height: cfg.height})
	defer s.Close()
	// a second input of the same shape for reloads (same count, same indices, other texts)
	alt := make([]string, n)
	for i, l := range lines {
		alt[i] = strings.Replace(l, "item-", "ITEM-", 1)
		if i%3 == 0 {
			alt[i] = fmt.Sprintf("other-%03d ab a1", i)
		}
	}
	altFile := filepath.Join(s.Dir, "alt-input")
	origFile := filepath.Join(s.Dir, "input")
	os.WriteFile(altFile, []byte(strings.Join(alt, "\n")+"\n"), 0o644)
	if n == 0 {
		os.WriteFile(altFile, nil, 0o644)
	}
	loadedAlt := false
	history := []string{fmt.Sprintf("fzf %q  (%d lines, window %dx%d)", args, n, cfg.width, cfg.height)}
	sawTrunc, partial := false, false
	agreesWithInput := func(st *Status) bool {
		src := lines
		if loadedAlt {
			src = alt
		}
		for _, m := range st.Matches {
			if k := m.Index + nhl; k < 0 || k >= len(src) || src[k] != m.Text {
				return false
			}
		}
		return true
	}
	verify := func(step string) {
		// wait for a stable state, then for a screen that shows it
		var st *Status
		prev := ""
		stable := 0
		deadline := time.Now().Add(20 * time.Second)
		for time.Now().Before(deadline) {
			cur, err := s.Get(1000, 0)
			if err == nil && !cur.Reading {
				b, _ := json.Marshal(cur)
				if string(b) == prev {
					stable++
				} else {
					stable = 0
				}
				prev = string(b)
				st = cur
				// a reload that was posted may not have begun yet: a state that still lists lines of
				// the previous input is not the one to look at (it is judged when the time is up)
				if stable >= 2 && agreesWithInput(cur) {
					break
				}
			}
			time.Sleep(5 * time.Millisecond)
		}
		if st == nil {
			if pt := s.panicText(); pt != "" {
				t.Fatalf("fzf crashed after %s\n%s\nhistory:\n  %s", step, pt, strings.Join(history, "\n  "))
			}
			t.Fatalf("no stable state after %s (alive=%v)\nhistory:\n  %s", step, s.Alive(), strings.Join(history, "\n  "))
		}
		// the lines the state reports are the input lines themselves (drawing must not
		// change them): ground truth for what the rows have to show
		src := lines
		if loadedAlt {
			src = alt
		}
		for _, m := range st.Matches {
			if k := m.Index + nhl; k < 0 || k >= len(src) || src[k] != m.Text {
				want := "<none>"
				if k >= 0 && k < len(src) {
					want = src[k]
				}
				t.Fatalf("after %s the result line #%d is %q, the input line is %q\nhistory:\n  %s", step, m.Index, m.Text, want, strings.Join(history, "\n  "))
			}
		}
		var msg string
		var rows []string
		until := time.Now().Add(3 * time.Second)
		for {
			rows = s.Capture()
			var tr bool
			msg, tr = checkScreen(rows, st, cfg)
			if msg == "" {
				sawTrunc = sawTrunc || tr
				break
			}
			if time.Now().After(until) {
				break
			}
			time.Sleep(25 * time.Millisecond)
		}
		if msg != "" {
			// the state may have moved on while we were looking: re-read it once
			if st2, err := s.Get(1000, 0); err == nil {
				b1, _ := json.Marshal(st)
				b2, _ := json.Marshal(st2)
				if string(b1) != string(b2) {
					if m2, _ := checkScreen(s.Capture(), st2, cfg); m2 == "" {
						return
					}
				}
			}
			t.Fatalf("after %s the screen does not show the state: %s\nstate: %s\nscreen:\n%s\nhistory:\n  %s", step, msg, describe(st), strings.Join(rows, "|\n")+"|", strings.Join(history, "\n  "))
		}
	}
	verify("start")
	nsteps := rapid.IntRange(3, 25).Draw(t, "steps")
	acts := []string{"up", "down", "up", "down", "page-up", "page-down", "half-page-down", "first", "last", "toggle", "toggle-down", "toggle-up", "select-all", "deselect-all", "toggle-all", "clear-selection", "pos(3)", "pos(-2)"}
	for i := 0; i < nsteps; i++ {
		var body string
		switch rapid.SampledFrom([]string{"nav", "nav", "nav", "nav", "query", "query", "reload", "edit", "edit", "resize"}).Draw(t, "kind") {
		case "reload":
			loadedAlt = !loadedAlt
			src, cur := origFile, lines
			if loadedAlt {
				src, cur = altFile, alt
			}
			body = "reload(cat " + src + ")"
			if rapid.Bool().Draw(t, "reloadSync") {
				body = "reload-sync(cat " + src + ")"
			}
			if nhl > 0 {
				cfg.headerLines = cur[:minInt(nhl, len(cur))]
			}
		case "resize":
			cfg.width = rapid.SampledFrom([]int{24, 30, 40, 61, 90, 130}).Draw(t, "newWidth")
			cfg.height = rapid.SampledFrom([]int{8, 10, 14, 24}).Draw(t, "newHeight")
			s.Resize(cfg.width, cfg.height)
			history = append(history, fmt.Sprintf("resize %dx%d", cfg.width, cfg.height))
			verify(fmt.Sprintf("resize %dx%d", cfg.width, cfg.height))
			continue
		case "edit":
			// actions that redraw only a part of the screen other than the list
			body = rapid.SampledFrom([]string{"backward-char", "forward-char", "beginning-of-line", "end-of-line", "backward-word", "forward-word", "change-prompt", "change-header", "backward-char+down", "beginning-of-line+toggle", "header-visibility"}).Draw(t, "edit")
			switch body {
			case "header-visibility":
				body = rapid.SampledFrom([]string{"toggle-header", "toggle-header", "hide-header", "show-header"}).Draw(t, "headerAction")
				switch body {
				case "toggle-header":
					cfg.headerOff = !cfg.headerOff
				case "hide-header":
					cfg.headerOff = true
				case "show-header":
					cfg.headerOff = false
				}
			case "change-prompt":
				cfg.prompt = rapid.SampledFrom([]string{"Q> ", "P2: ", "> "}).Draw(t, "newPrompt")
				body = "change-prompt(" + cfg.prompt + ")"
			case "change-header":
				h := rapid.SampledFrom([]string{"NEWHEAD one", "NH-a\nNH-b"}).Draw(t, "newHeader")
				cfg.headers = strings.Split(h, "\n")
				body = "change-header(" + h + ")"
			}
			partial = true
		case "nav":
			k := rapid.IntRange(1, 3).Draw(t, "chain")
			var parts []string
			for j := 0; j < k; j++ {
				parts = append(parts, rapid.SampledFrom(acts).Draw(t, "act"))
			}
			body = strings.Join(parts, "+")
			partial = true
		default:
			body = rapid.SampledFrom([]string{"put(a)", "put(b)", "put(1)", "put(-)", "backward-delete-char", "clear-query", "change-query(item-0)", "change-query(a1 b2)", "change-query(zzz)", "change-query(med 7)", "change-query(item a1 b2 zz yy xx ww vv)", "change-query(the quick brown fox jump)", "put( more words here)"}).Draw(t, "q")
		}
		history = append(history, "POST "+body)
		if code, err := s.Post(body); err != nil || code != 200 {
			t.Fatalf("POST %s answered %d %v\nhistory:\n  %s", body, code, err, strings.Join(history, "\n  "))
		}
		verify("POST " + body)
	}
	nt := partial && sawTrunc || partial && n > cfg.height
	vstat.Case("C15/session", strings.Join(history, "|"), nt, "layout="+cfg.layout, "info="+cfg.info, fmt.Sprintf("multi=%v", cfg.multi), fmt.Sprintf("truncated=%v", sawTrunc), fmt.Sprintf("headers=%d+%d", nh, nhl))
	if nt && vstat.WantSample("C15/session") {
		vstat.Sample("C15/session", map[string]interface{}{"history": history, "last_screen": s.Capture()})
	}
	s.Post("abort")
}

func TestVerifC15_Sessions(t *testing.T) {
	rapid.Check(t, c15Session)
}
