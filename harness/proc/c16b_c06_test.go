//go:build verif

package proc

import (
	"fmt"
	"os"
	"path/filepath"
	"strings"
	"testing"
	"time"

	"pgregory.net/rapid"
	"verif.local/vstat"
)

// C16: on a non-local listener (with a key, without --listen-unsafe) no
// command-executing action of a POSTed list may run, wherever it stands in
// the list, while the harmless actions of the same list do run.
func TestVerifC16_ProcUnsafeFilter(t *testing.T) {
	rapid.Check(t, func(t *rapid.T) {
		key := "k3y-unsafe"
		// which of --listen / --listen-unsafe is in force is decided by the last one given
		mode := rapid.SampledFrom([]string{"plain", "plain", "unsafe-then-plain", "env-unsafe-then-plain", "plain-then-unsafe"}).Draw(t, "listenOptions")
		largs := []string{"--listen", "0.0.0.0:0"}
		env := []string{"FZF_API_KEY=" + key}
		switch mode {
		case "unsafe-then-plain":
			largs = []string{"--listen-unsafe", "0.0.0.0:0", "--listen", "0.0.0.0:0"}
		case "env-unsafe-then-plain":
			env = append(env, "FZF_DEFAULT_OPTS=--listen-unsafe 0.0.0.0:0")
		case "plain-then-unsafe":
			largs = []string{"--listen", "0.0.0.0:0", "--listen-unsafe=0.0.0.0:0"}
		}
		unsafeListener := mode == "plain-then-unsafe"
		s := StartSession(t, SessionCfg{Args: append(append([]string{"--no-mouse"}, largs...), "--bind", "start:+execute-silent(echo $FZF_PORT > port2)"), Input: []byte("a\nb\nc\n"), Env: env, NoListen: true, Width: 60, Height: 10})
		defer s.Close()
		port := 0
		for i := 0; i < 1000 && port == 0; i++ {
			if b, err := os.ReadFile(filepath.Join(s.Dir, "port2")); err == nil {
				fmt.Sscanf(strings.TrimSpace(string(b)), "%d", &port)
			}
			time.Sleep(5 * time.Millisecond)
		}
		if port == 0 {
			infra(t, "no port reported")
		}
		s.Port = port
		n := rapid.IntRange(1, 6).Draw(t, "nactions")
		var parts []string
		var canaries []string
		unsafe := 0
		for i := 0; i < n; i++ {
			if rapid.Bool().Draw(t, "unsafe") {
				c := filepath.Join(s.Dir, fmt.Sprintf("canary%d", i))
				canaries = append(canaries, c)
				form := rapid.SampledFrom([]string{"execute-silent(touch %s)", "execute(touch %s)", "reload(touch %s; echo x)", "transform(touch %s)", "transform-query(touch %s)", "reload-sync(touch %s)", "execute-multi(touch %s)", "transform-prompt(touch %s)"}).Draw(t, "form")
				parts = append(parts, fmt.Sprintf(form, c))
				unsafe++
			} else {
				parts = append(parts, rapid.SampledFrom([]string{"up", "down", "toggle-sort", "put(z)", "backward-delete-char", "ignore"}).Draw(t, "safe"))
			}
		}
		marker := "m4rk"
		body := strings.Join(parts, "+") + "+change-query(" + marker + ")"
		resp, err := rawRequest(port, []byte(fmt.Sprintf("POST / HTTP/1.1\r\nx-api-key: %s\r\nContent-Length: %d\r\n\r\n%s", key, len(body), body)), 0, 0)
		if err != nil || !strings.HasPrefix(resp, "HTTP/1.1 200") {
			t.Fatalf("keyed POST %q answered %q %v", body, firstLine(resp), err)
		}
		if _, ok := s.waitKeyed(key, func(st *Status) bool { return st.Query == marker }); !ok {
			t.Fatalf("the harmless actions of %q were not executed (query never became %q)", body, marker)
		}
		time.Sleep(150 * time.Millisecond)
		adjacent := false
		for i := 1; i < len(parts); i++ {
			if strings.Contains(parts[i], "touch") && strings.Contains(parts[i-1], "touch") {
				adjacent = true
			}
		}
		vstat.Case("C16/proc-unsafe-filter", body, unsafe >= 2, fmt.Sprintf("unsafe=%d", unsafe), fmt.Sprintf("adjacent=%v", adjacent), "listen="+mode)
		for _, c := range canaries {
			_, err := os.Stat(c)
			if err == nil && !unsafeListener {
				t.Fatalf("non-local listener, options %q (the last one is not --listen-unsafe): the command of an action in %q was executed (%s exists)", largs, body, filepath.Base(c))
			}
		}
	})
}

// C06 (interactive): --header-lines / --tail with reload and reload-sync:
// the first N records of whatever input is loaded are diverted, the rest are
// numbered from 0 in stream order, --tail keeps the last M of them.
func TestVerifC06_ProcHeaderTailReload(t *testing.T) {
	rapid.Check(t, func(t *rapid.T) {
		nh := rapid.SampledFrom([]int{0, 1, 2, 3}).Draw(t, "headerLines")
		tail := rapid.SampledFrom([]int{0, 0, 2, 5, 130}).Draw(t, "tail")
		read0 := rapid.IntRange(0, 2).Draw(t, "read0") == 0
		sep := "\n"
		if read0 {
			sep = "\x00"
		}
		mk := func(prefix string, n int) []string {
			out := make([]string, n)
			for i := range out {
				out[i] = fmt.Sprintf("%s%d", prefix, i)
				switch {
				case i%4 == 1:
					// non-ASCII and wider than the window: what is drawn is a truncated rendition
					out[i] += " " + strings.Repeat(fmt.Sprintf("élément%02d-", i%100), 9)
				case i%4 == 2 && read0 && i >= 3: // (records that may become header lines stay single-line: how a multi-line header record is drawn is not specified)
					out[i] += "\nsecond line of the record é\n\tthird"
				}
			}
			return out
		}
		inputs := [][]string{mk("a", rapid.SampledFrom([]int{0, 1, 4, 9, 150, 260}).Draw(t, "nA")), mk("b", rapid.SampledFrom([]int{0, 2, 5, 9, 150}).Draw(t, "nB")), mk("c", rapid.SampledFrom([]int{3, 7, 120}).Draw(t, "nC"))}
		args := []string{"--no-mouse", "--no-sort"}
		if read0 {
			args = append(args, "--read0")
		}
		if nh > 0 {
			args = append(args, fmt.Sprintf("--header-lines=%d", nh))
		}
		if tail > 0 {
			args = append(args, fmt.Sprintf("--tail=%d", tail))
		}
		join := func(l []string) []byte {
			if len(l) == 0 {
				return nil
			}
			return []byte(strings.Join(l, sep) + sep)
		}
		s := StartSession(t, SessionCfg{Args: args, Input: join(inputs[0]), Width: 60, Height: 12})
		defer s.Close()
		files := make([]string, len(inputs))
		for i, in := range inputs {
			files[i] = filepath.Join(s.Dir, fmt.Sprintf("in%d", i))
			os.WriteFile(files[i], join(in), 0o644)
		}
		history := []string{fmt.Sprintf("fzf %q (%d lines)", args, len(inputs[0]))}
		expect := func(cur []string, step string) {
			body := cur
			if nh < len(body) {
				body = body[nh:]
			} else {
				body = nil
			}
			first := 0
			if tail > 0 && len(body) > tail {
				first = len(body) - tail
			}
			want := body[first:]
			pred := func(st *Status) bool {
				if st.Reading || st.TotalCount != len(want) || st.MatchCount != len(want) || len(st.Matches) != minInt(len(want), 400) {
					return false
				}
				for i, m := range st.Matches {
					if m.Text != want[i] || m.Index != first+i {
						return false
					}
				}
				return true
			}
			st, ok := s.WaitFor(400, pred)
			if !ok {
				firstBad := "count"
				if st != nil {
					for i, m := range st.Matches {
						if i >= len(want) || m.Text != want[i] || m.Index != first+i {
							w := "<none>"
							if i < len(want) {
								w = fmt.Sprintf("#%d %q", first+i, want[i])
							}
							firstBad = fmt.Sprintf("item %d is #%d %q, expected %s", i, m.Index, m.Text, w)
							break
						}
					}
				}
				t.Fatalf("%s: the searchable items are not records %d.. of the loaded input with ordinals counting from the first non-header record (%d expected): %s\nstate: %s\nhistory:\n  %s", step, nh+first, len(want), firstBad, describe(st), strings.Join(history, "\n  "))
			}
		}
		// the records diverted by --header-lines are shown as the header (all of them, also when the
		// input has fewer records than N)
		headerShown := func(cur []string, step string) {
			k := minInt(nh, len(cur))
			var missing string
			for attempt := 0; attempt < 60; attempt++ {
				missing = ""
				rows := s.Capture()
				for _, rec := range cur[:k] {
					first := []rune(strings.SplitN(rec, "\n", 2)[0])
					if len(first) > 12 {
						first = first[:12]
					}
					found := false
					for _, row := range rows {
						if strings.HasPrefix(strings.TrimSpace(row), string(first)) {
							found = true
						}
					}
					if !found {
						missing = rec
					}
				}
				if missing == "" {
					return
				}
				time.Sleep(50 * time.Millisecond)
			}
			if len([]rune(missing)) > 40 {
				missing = string([]rune(missing)[:40]) + "..."
			}
			t.Fatalf("%s: header record %q (one of the first %d records, --header-lines=%d) is not shown on the screen\nscreen:\n%s\nhistory:\n  %s", step, missing, k, nh, strings.Join(s.Capture(), "\n"), strings.Join(history, "\n  "))
		}
		expect(inputs[0], "start")
		headerShown(inputs[0], "start")
		time.Sleep(120 * time.Millisecond)
		expect(inputs[0], "start, after the list has been drawn")
		steps := rapid.IntRange(1, 5).Draw(t, "steps")
		for i := 0; i < steps; i++ {
			k := rapid.IntRange(0, len(inputs)-1).Draw(t, "which")
			act := rapid.SampledFrom([]string{"reload", "reload-sync"}).Draw(t, "how")
			body := fmt.Sprintf("%s(cat %s)", act, files[k])
			history = append(history, "POST "+body)
			if code, err := s.Post(body); err != nil || code != 200 {
				t.Fatalf("POST %s answered %d %v", body, code, err)
			}
			expect(inputs[k], "after "+body)
			headerShown(inputs[k], "after "+body)
			// ... and still after the list has been drawn
			if rapid.Bool().Draw(t, "lookAgain") {
				s.Post(rapid.SampledFrom([]string{"down", "page-up", "last", "toggle-wrap"}).Draw(t, "redraw"))
				time.Sleep(120 * time.Millisecond)
				s.Post("toggle-wrap+toggle-wrap")
				expect(inputs[k], "after "+body+" and a redraw")
			}
		}
		vstat.Case("C06/proc-header-tail-reload", strings.Join(history, "|"), nh > 0 || tail > 0, fmt.Sprintf("header=%d", nh), fmt.Sprintf("tail=%d", tail))
	})
}
