//go:build verif

package proc

import (
	"bytes"
	"fmt"
	"net"
	"os"
	"os/exec"
	"path/filepath"
	"strings"
	"testing"
	"time"

	"pgregory.net/rapid"
	"verif.local/vstat"
)

// C17 (process level) - a rejected command line ends with exit status 2 and a
// message on stderr, never with a crash.

var c17Opts = []string{"--height", "--margin", "--padding", "--preview-window", "--tmux", "--bind", "--color", "--tiebreak", "--nth", "--with-nth", "--delimiter", "--tabstop", "--multi", "--info", "--border", "--layout",
	"--scheme", "--algo", "--walker", "--history-size", "--jump-labels", "--pointer", "--marker", "--listen", "--scroll-off", "--hscroll-off", "--tail", "--header-lines", "--gap", "--min-height", "--ellipsis", "--expect", "--style", "--wrap-sign", "--accept-nth", "--preview-border", "--list-border", "--input-border", "--header-border", "--border-label-pos", "--ghost", "--freeze-left"}
var c17Vals = []string{"", "0", "-1", "1", "~", "%", "100%", "101%", "~0", "abc", ",", ":", "..", "0..", "1..0", "a:", ":a", "a:b", "a:execute", "a:execute~", "a:change-query/+1/", "ctrl-a:up+", "x:put", "f1:reload(", "up,down,left", "right,0", "hidden:", "center,", "center,0%", "fg:", "fg:256", "fg:#12", "bg:-2", "length,length", "index,length", "é", "\t", "\\", "[", "(", "*", "99999999999999999999", "1e9", "3.5", "localhost:99999", ":0", "host:1:2", "ab", "aa", "--", "-", "+"}

func TestVerifC17_ProcRejects(t *testing.T) {
	rapid.Check(t, func(t *rapid.T) {
		n := rapid.IntRange(1, 3).Draw(t, "nopts")
		var args []string
		for i := 0; i < n; i++ {
			o := rapid.SampledFrom(c17Opts).Draw(t, "opt")
			v := rapid.SampledFrom(c17Vals).Draw(t, "val")
			switch rapid.IntRange(0, 2).Draw(t, "form") {
			case 0:
				args = append(args, o+"="+v)
			case 1:
				args = append(args, o, v)
			default:
				args = append(args, o)
			}
		}
		args = append(args, "--filter", "x")
		cmd := exec.Command(fzfBin, args...)
		cmd.Stdin = strings.NewReader("x\ny\n")
		cmd.Env = []string{"PATH=/usr/bin:/bin", "SHELL=/bin/sh", "TERM=xterm", "HOME=" + workDir}
		cmd.Dir = workDir
		var out, errb bytes.Buffer
		cmd.Stdout, cmd.Stderr = &out, &errb
		done := make(chan error, 1)
		if err := cmd.Start(); err != nil {
			infra(t, "start: %v", err)
		}
		go func() { done <- cmd.Wait() }()
		select {
		case <-done:
		case <-time.After(20 * time.Second):
			cmd.Process.Kill()
			t.Fatalf("fzf %q did not terminate within 20 s", args)
		}
		code := cmd.ProcessState.ExitCode()
		stderr := errb.String()
		vstat.Case("C17/proc-rejects", fmt.Sprintf("%q", args), code == 2, fmt.Sprintf("exit=%d", code))
		if code == 2 && vstat.WantSample("C17/proc-rejects") {
			vstat.Sample("C17/proc-rejects", map[string]interface{}{"args": args, "stderr": firstLine(stderr)})
		}
		if strings.Contains(stderr, "panic:") || strings.Contains(stderr, "goroutine ") || strings.Contains(stderr, "runtime error") || strings.Contains(stderr, "fatal error") {
			t.Fatalf("fzf %q crashed:\n%s", args, stderr)
		}
		switch code {
		case 0, 1:
		case 2:
			if strings.TrimSpace(stderr) == "" {
				t.Fatalf("fzf %q exited with status 2 without an error message", args)
			}
		default:
			t.Fatalf("fzf %q: exit status %d (stderr %q)", args, code, stderr)
		}
	})
}

// C16 (process level) - the live endpoint.

func rawRequest(port int, payload []byte, chunk int, wait time.Duration) (string, error) {
	conn, err := net.DialTimeout("tcp", fmt.Sprintf("127.0.0.1:%d", port), 5*time.Second)
	if err != nil {
		return "", err
	}
	defer conn.Close()
	conn.SetDeadline(time.Now().Add(15 * time.Second))
	for len(payload) > 0 {
		n := chunk
		if n <= 0 || n > len(payload) {
			n = len(payload)
		}
		if _, err := conn.Write(payload[:n]); err != nil {
			break
		}
		payload = payload[n:]
		if len(payload) > 0 && wait > 0 {
			time.Sleep(wait)
		}
	}
	if tc, ok := conn.(*net.TCPConn); ok {
		tc.CloseWrite()
	}
	var buf bytes.Buffer
	tmp := make([]byte, 65536)
	for {
		n, err := conn.Read(tmp)
		buf.Write(tmp[:n])
		if err != nil {
			break
		}
	}
	return buf.String(), nil
}

func TestVerifC16_ProcLive(t *testing.T) {
	rapid.Check(t, func(t *rapid.T) {
		key := rapid.SampledFrom([]string{"", "sesame-0123"}).Draw(t, "key")
		env := []string{}
		if key != "" {
			env = append(env, "FZF_API_KEY="+key)
		}
		lines := []string{"alpha", "beta", "gamma", "delta"}
		s := StartSession(t, SessionCfg{Args: []string{"--no-mouse"}, Input: []byte(strings.Join(lines, "\n") + "\n"), Env: env, Width: 60, Height: 10})
		defer s.Close()
		get := func() (*Status, string) {
			hdr := ""
			if key != "" {
				hdr = "x-api-key: " + key + "\r\n"
			}
			resp, err := rawRequest(s.Port, []byte("GET /?limit=10 HTTP/1.1\r\n"+hdr+"\r\n"), 0, 0)
			if err != nil {
				return nil, err.Error()
			}
			return parseStatus(resp), firstLine(resp)
		}
		base, line := get()
		if base == nil {
			t.Fatalf("GET with the right key not answered: %s", line)
		}
		history := []string{fmt.Sprintf("key=%q", key)}
		canary := filepath.Join(s.Dir, "canary")
		n := rapid.IntRange(2, 10).Draw(t, "requests")
		hostile := 0
		for i := 0; i < n; i++ {
			kind := rapid.SampledFrom([]string{"garbage", "no-key-post", "wrong-key-get", "bad-length", "huge", "slow-valid", "valid", "valid", "truncated", "get", "get-params", "get-params"}).Draw(t, "kind")
			hdr := ""
			if key != "" {
				hdr = "x-api-key: " + key + "\r\n"
			}
			body := rapid.SampledFrom([]string{"change-query(a)", "down", "up+up", "change-query(et)+down", "execute-silent(touch " + canary + ")", "clear-query"}).Draw(t, "body")
			var payload []byte
			expectEffect := false
			switch kind {
			case "garbage":
				payload = rapid.SliceOfN(rapid.Byte(), 1, 200).Draw(t, "bytes")
			case "no-key-post":
				payload = []byte(fmt.Sprintf("POST / HTTP/1.1\r\nContent-Length: %d\r\n\r\n%s", len(body), body))
				expectEffect = key == ""
			case "wrong-key-get":
				payload = []byte("GET / HTTP/1.1\r\nx-api-key: nope\r\n\r\n")
				if key == "" {
					kind = "get" // nothing to check the header against
				}
			case "bad-length":
				payload = []byte(fmt.Sprintf("POST / HTTP/1.1\r\n%sContent-Length: %d\r\n\r\n%s", hdr, len(body)+7, body))
			case "huge":
				payload = []byte(fmt.Sprintf("POST / HTTP/1.1\r\n%sContent-Length: 2000000\r\n\r\n%s", hdr, strings.Repeat("up+", 1000)))
			case "truncated":
				full := fmt.Sprintf("POST / HTTP/1.1\r\n%sContent-Length: %d\r\n\r\n%s", hdr, len(body), body)
				payload = []byte(full[:rapid.IntRange(1, len(full)-len(body)).Draw(t, "cut")])
			case "slow-valid":
				payload = []byte(fmt.Sprintf("POST / HTTP/1.1\r\n%sContent-Length: %d\r\n\r\n%s", hdr, len(body), body))
				expectEffect = true
			case "valid":
				payload = []byte(fmt.Sprintf("POST / HTTP/1.1\r\nHost: x\r\n%sContent-Length: %d\r\n\r\n%s", hdr, len(body), body))
				expectEffect = true
			case "get":
				payload = []byte("GET / HTTP/1.1\r\n" + hdr + "\r\n")
			case "get-params":
				// paging parameters at and beyond the limits of the integer type
				vals := []string{"0", "1", "3", "-1", "9223372036854775807", "9223372036854775806", "4611686018427387904", "99999999999999999999", "abc", ""}
				payload = []byte(fmt.Sprintf("GET /?limit=%s&offset=%s HTTP/1.1\r\n%s\r\n", rapid.SampledFrom(vals).Draw(t, "limit"), rapid.SampledFrom(vals).Draw(t, "offset"), hdr))
				kind = "get"
			}
			chunk, wait := 0, time.Duration(0)
			if kind == "slow-valid" {
				chunk, wait = rapid.IntRange(1, 30).Draw(t, "chunk"), 2*time.Millisecond
			}
			// actions are acknowledged when queued: a sentinel query change that has become
			// visible proves that everything sent before has been processed (FIFO)
			sentinel := fmt.Sprintf("s%dq", i)
			sb := "change-query(" + sentinel + ")"
			rawRequest(s.Port, []byte(fmt.Sprintf("POST / HTTP/1.1\r\n%sContent-Length: %d\r\n\r\n%s", hdr, len(sb), sb)), 0, 0)
			before, okS := s.waitKeyed(key, func(st *Status) bool {
				return st.Query == sentinel && !st.Reading && st.MatchCount == 0 && st.Position <= 0
			})
			if !okS {
				t.Fatalf("sentinel query did not become visible\nhistory: %v", history)
			}
			resp, err := rawRequest(s.Port, payload, chunk, wait)
			history = append(history, fmt.Sprintf("%s %q -> %q", kind, clip(string(payload), 90), firstLine(resp)))
			if err != nil {
				t.Fatalf("cannot connect to the listener after %v: %v", history, err)
			}
			if !strings.HasPrefix(resp, "HTTP/1.1 ") {
				t.Fatalf("request %q got a malformed answer %q\nhistory: %v", clip(string(payload), 200), clip(resp, 200), history)
			}
			if !expectEffect {
				hostile++
				if strings.HasPrefix(resp, "HTTP/1.1 200") && kind != "get" {
					t.Fatalf("%s request %q was answered 200\nhistory: %v", kind, clip(string(payload), 200), history)
				}
				if key != "" && (kind == "wrong-key-get" || kind == "no-key-post") && strings.Contains(resp, "\"query\"") {
					t.Fatalf("state revealed without the key: %q", clip(resp, 200))
				}
			}
			// liveness + state
			after, l2 := get()
			if after == nil {
				if pt := s.panicText(); pt != "" {
					t.Fatalf("fzf crashed after %v\n%s", history, pt)
				}
				t.Fatalf("fzf does not answer after %v: %s (alive=%v)", history, l2, s.Alive())
			}
			if !expectEffect && before != nil {
				time.Sleep(20 * time.Millisecond)
				after, _ = get()
				// (nothing matches the sentinel query: -1 and 0 both say that the pointer designates nothing)
				pos := func(st *Status) int {
					if st.Position < 0 {
						return 0
					}
					return st.Position
				}
				if after != nil && (after.Query != before.Query || pos(after) != pos(before)) {
					t.Fatalf("a rejected / read-only request changed the state from (%q,%d) to (%q,%d)\nhistory: %v", before.Query, before.Position, after.Query, after.Position, history)
				}
			}
			if expectEffect && strings.HasPrefix(body, "change-query(") && !strings.Contains(body, "+") {
				want := strings.TrimSuffix(strings.TrimPrefix(body, "change-query("), ")")
				if _, ok := s.waitKeyed(key, func(st *Status) bool { return st.Query == want }); !ok {
					t.Fatalf("valid POST %q had no effect\nhistory: %v", body, history)
				}
			}
		}
		// a POST body acts exactly like the same list bound to a key: compare two sessions
		vstat.Case("C16/proc-live", strings.Join(history, "|"), key != "" && hostile > 0, fmt.Sprintf("key=%v", key != ""))
		if key != "" && hostile > 0 && vstat.WantSample("C16/proc-live") {
			vstat.Sample("C16/proc-live", history)
		}
	})
}

func clip(s string, n int) string {
	if len(s) > n {
		return s[:n] + "…"
	}
	return s
}

func parseStatus(resp string) *Status {
	_, body, ok := strings.Cut(resp, "\r\n\r\n")
	if !ok || !strings.HasPrefix(resp, "HTTP/1.1 200") {
		return nil
	}
	var st Status
	if err := jsonUnmarshal([]byte(body), &st); err != nil {
		return nil
	}
	return &st
}

func (s *Session) waitKeyed(key string, pred func(*Status) bool) (*Status, bool) {
	hdr := ""
	if key != "" {
		hdr = "x-api-key: " + key + "\r\n"
	}
	deadline := time.Now().Add(10 * time.Second)
	var last *Status
	for time.Now().Before(deadline) {
		resp, err := rawRequest(s.Port, []byte("GET /?limit=10 HTTP/1.1\r\n"+hdr+"\r\n"), 0, 0)
		if err == nil {
			if st := parseStatus(resp); st != nil {
				last = st
				if pred(st) {
					return st, true
				}
			}
		}
		time.Sleep(5 * time.Millisecond)
	}
	return last, false
}

// POST body == --bind: the same action list sent over the socket and bound to
// a key gives the same state.
func TestVerifC16_ProcPostEqualsBind(t *testing.T) {
	rapid.Check(t, func(t *rapid.T) {
		lines := []string{"alpha 1", "beta 2", "gamma 3", "delta 4", "abba 5"}
		k := rapid.IntRange(1, 4).Draw(t, "nactions")
		var parts []string
		for i := 0; i < k; i++ {
			parts = append(parts, rapid.SampledFrom([]string{"down", "up", "up", "toggle", "change-query(a)", "put(b)", "toggle-all", "last", "first", "backward-delete-char", "pos(2)", "change-prompt(>> )", "select-all", "exclude", "toggle-sort", "change-query(a,b)", "put(+)", "put(,)"}).Draw(t, "action"))
		}
		list := strings.Join(parts, "+")
		// the request may arrive while jump labels are shown: it ends that mode and is executed all the same
		jumpFirst := rapid.IntRange(0, 3).Draw(t, "jumpLabelsShown") == 0
		run := func(viaBind bool) *Status {
			args := []string{"--no-mouse", "--multi"}
			if viaBind {
				args = append(args, "--bind", "ctrl-t:"+list)
			}
			s := StartSession(t, SessionCfg{Args: args, Input: []byte(strings.Join(lines, "\n") + "\n"), Width: 60, Height: 12})
			defer s.Close()
			if _, ok := s.WaitFor(10, func(st *Status) bool {
				return !st.Reading && st.TotalCount == len(lines) && st.MatchCount == len(lines) && st.Current != nil
			}); !ok {
				infra(t, "session did not settle")
			}
			if !viaBind && jumpFirst {
				if code, err := s.Post(rapid.SampledFrom([]string{"jump", "jump-accept"}).Draw(t, "jump")); err != nil || code != 200 {
					t.Fatalf("POST jump answered %d %v", code, err)
				}
			}
			if viaBind {
				s.SendHex([]byte{0x14})
			} else if code, err := s.Post(list); err != nil || code != 200 {
				t.Fatalf("POST %q answered %d %v", list, code, err)
			}
			// wait for a stable state
			var last *Status
			stable := 0
			for i := 0; i < 400 && stable < 6; i++ {
				st, err := s.Get(10, 0)
				if err == nil && !st.Reading {
					if last != nil && fmt.Sprint(*st, st.Current, st.Matches, st.Selected) == fmt.Sprint(*last, last.Current, last.Matches, last.Selected) {
						stable++
					} else {
						stable = 0
					}
					last = st
				}
				time.Sleep(10 * time.Millisecond)
			}
			return last
		}
		a, b := run(false), run(true)
		vstat.Case("C16/proc-post-equals-bind", fmt.Sprint(list, jumpFirst), k >= 2, fmt.Sprintf("actions=%d", k), fmt.Sprintf("jump_labels_shown=%v", jumpFirst))
		if a == nil || b == nil {
			t.Fatalf("no state for %q (post=%v bind=%v)", list, a != nil, b != nil)
		}
		da, db := describe(a)+fmt.Sprint(a.Matches), describe(b)+fmt.Sprint(b.Matches)
		if da != db {
			t.Fatalf("action list %q: POSTed (while jump labels are shown: %v) -> %s\nbound to a key and pressed -> %s", list, jumpFirst, da, db)
		}
	})
}

// A non-local listener refuses to start without a key, and with a key it does
// not run command-executing actions unless --listen-unsafe is given.
func TestVerifC16_ProcNonLocal(t *testing.T) {
	for _, c := range []struct {
		name   string
		key    string
		unsafe bool
	}{{"no key", "", false}, {"key", "k3y", false}, {"key+unsafe", "k3y", true}} {
		args := []string{"--no-mouse", "--listen", "0.0.0.0:0"}
		if c.unsafe {
			args = []string{"--no-mouse", "--listen-unsafe", "0.0.0.0:0"}
		}
		env := []string{}
		if c.key != "" {
			env = append(env, "FZF_API_KEY="+c.key)
		}
		// the port is reported through the start binding added by the harness
		s := StartSession(t, SessionCfg{Args: append(args, "--bind", "start:+execute-silent(echo $FZF_PORT > port2)"), Input: []byte("a\nb\n"), Env: env, NoListen: true, Width: 60, Height: 10})
		vstat.Case("C16/proc-non-local", c.name, true, c.name)
		if c.key == "" {
			code, ok := s.WaitExit(10 * time.Second)
			if !ok || code != 2 {
				s.Close()
				t.Fatalf("fzf --listen 0.0.0.0:0 without FZF_API_KEY should refuse to start (exit 2); exited=%v status=%d", ok, code)
			}
			if len(bytes.TrimSpace(s.Stderr())) == 0 {
				t.Errorf("no error message on stderr")
			}
			s.Close()
			continue
		}
		port := 0
		for i := 0; i < 500 && port == 0; i++ {
			if b, err := os.ReadFile(filepath.Join(s.Dir, "port2")); err == nil {
				fmt.Sscanf(strings.TrimSpace(string(b)), "%d", &port)
			}
			time.Sleep(10 * time.Millisecond)
		}
		if port == 0 {
			s.Close()
			infra(t, "no port reported for %s", c.name)
		}
		s.Port = port
		canary := filepath.Join(s.Dir, "canary")
		body := "execute-silent(touch " + canary + ")+change-query(done)"
		resp, _ := rawRequest(port, []byte(fmt.Sprintf("POST / HTTP/1.1\r\nx-api-key: %s\r\nContent-Length: %d\r\n\r\n%s", c.key, len(body), body)), 0, 0)
		if !strings.HasPrefix(resp, "HTTP/1.1 200") {
			s.Close()
			t.Fatalf("%s: keyed POST answered %q", c.name, firstLine(resp))
		}
		s.waitKeyed(c.key, func(st *Status) bool { return st.Query == "done" })
		time.Sleep(100 * time.Millisecond)
		_, err := os.Stat(canary)
		ran := err == nil
		if ran != c.unsafe {
			s.Close()
			t.Fatalf("%s: command-executing action over a non-local listener ran=%v, expected %v", c.name, ran, c.unsafe)
		}
		s.Close()
	}
}

// C16: the configured key is compared exactly. A key with blanks around it
// (or made of blanks) cannot be presented at all, because header values are
// trimmed: every request must be refused, with any spelling of the key, on
// local and non-local listeners - it must never degrade to "no key" or to the
// trimmed key.
func TestVerifC16_ProcPaddedKey(t *testing.T) {
	rapid.Check(t, func(t *rapid.T) {
		key := rapid.SampledFrom([]string{" ", "  ", "\t", " sesame", "sesame ", " sesame ", "sesame\t"}).Draw(t, "key")
		nonLocal := rapid.Bool().Draw(t, "nonLocal")
		addr := "127.0.0.1:0"
		if nonLocal {
			addr = "0.0.0.0:0"
		}
		s := StartSession(t, SessionCfg{Args: []string{"--no-mouse", "--listen", addr, "--bind", "start:+execute-silent(echo $FZF_PORT > port2)"}, Input: []byte("alpha\nbeta\n"), Env: []string{"FZF_API_KEY=" + key}, NoListen: true, Width: 60, Height: 10})
		defer s.Close()
		port := 0
		for i := 0; i < 1000 && port == 0; i++ {
			if b, err := os.ReadFile(filepath.Join(s.Dir, "port2")); err == nil {
				fmt.Sscanf(strings.TrimSpace(string(b)), "%d", &port)
			}
			if _, exited := s.ExitStatus(); exited {
				break
			}
			time.Sleep(5 * time.Millisecond)
		}
		if port == 0 {
			// refusing to start is a clean way out too
			if code, exited := s.ExitStatus(); exited && code == 2 {
				vstat.Case("C16/proc-padded-key", fmt.Sprintf("%q|%v|refused", key, nonLocal), true, "refused_to_start")
				return
			}
			infra(t, "no port reported (stderr %q)", s.Stderr())
		}
		canary := filepath.Join(s.Dir, "canary")
		var history []string
		for _, presented := range []string{"", strings.TrimSpace(key), key, strings.TrimSpace(key) + " ", "x"} {
			hdr := ""
			if presented != "" || rapid.Bool().Draw(t, "emptyHeader") {
				hdr = "x-api-key: " + presented + "\r\n"
			}
			body := rapid.SampledFrom([]string{"change-query(intruder)", "execute-silent(touch " + canary + ")"}).Draw(t, "body")
			for _, req := range []string{"GET / HTTP/1.1\r\n" + hdr + "\r\n", fmt.Sprintf("POST / HTTP/1.1\r\n%sContent-Length: %d\r\n\r\n%s", hdr, len(body), body)} {
				resp, err := rawRequest(port, []byte(req), 0, 0)
				history = append(history, fmt.Sprintf("%q -> %q", clip(req, 70), firstLine(resp)))
				if err != nil {
					t.Fatalf("cannot connect: %v\n%v", err, history)
				}
				if strings.HasPrefix(resp, "HTTP/1.1 200") || strings.Contains(resp, "\"query\"") {
					t.Fatalf("FZF_API_KEY=%q (listener %s): a request presenting %q was accepted: %q\nhistory: %v", key, addr, presented, clip(resp, 120), history)
				}
			}
		}
		time.Sleep(100 * time.Millisecond)
		if _, err := os.Stat(canary); err == nil {
			t.Fatalf("FZF_API_KEY=%q: a refused POST was executed\nhistory: %v", key, history)
		}
		for _, row := range s.Capture() {
			if strings.Contains(row, "intruder") {
				t.Fatalf("FZF_API_KEY=%q: a refused POST changed the query\nhistory: %v", key, history)
			}
		}
		vstat.Case("C16/proc-padded-key", fmt.Sprintf("%q|%v", key, nonLocal), true, fmt.Sprintf("nonLocal=%v", nonLocal))
	})
}
