//go:build verif

package proc

import (
	"fmt"
	"os"
	"os/exec"
	"path/filepath"
	"sort"
	"strings"
	"sync"
	"testing"
	"time"

	"pgregory.net/rapid"
	"verif.local/oracle"
	"verif.local/vstat"
)

// C18 at process level: sequences of real sessions sharing one --history
// file. The in-package unit drives the History type; this one covers the
// wiring in the terminal (which exits submit, what previous/next do to the
// query line, edits kept per entry for the session only).
func c18ProcSessions(t *rapid.T) {
	dir, err := os.MkdirTemp(workDir, "c18")
	if err != nil {
		infra(t, "%v", err)
	}
	defer os.RemoveAll(dir)
	path := filepath.Join(dir, "history")
	max := rapid.IntRange(1, 4).Draw(t, "max")
	model := &oracle.HistoryModel{Max: max}
	entry := rapid.StringMatching(`[a-c]{1,2}( [a-c])?`)
	initKind := rapid.SampledFrom([]string{"missing", "empty", "plain", "trailing-newline", "longer-than-limit"}).Draw(t, "init")
	content, exists := "", initKind != "missing"
	if exists {
		k := 0
		switch initKind {
		case "plain", "trailing-newline":
			k = rapid.IntRange(1, max).Draw(t, "k")
		case "longer-than-limit":
			k = rapid.IntRange(max+1, max+3).Draw(t, "k")
		}
		var es []string
		for i := 0; i < k; i++ {
			es = append(es, entry.Draw(t, "e"))
		}
		content = strings.Join(es, "\n")
		if initKind != "plain" && k > 0 {
			content += "\n"
		}
		if err := os.WriteFile(path, []byte(content), 0o600); err != nil {
			infra(t, "%v", err)
		}
	}
	model.LoadFile(content, exists)
	trace := []string{fmt.Sprintf("init=%s --history-size=%d file=%q", initKind, max, content)}
	nsessions := rapid.IntRange(1, 3).Draw(t, "sessions")
	navigated, submitted, hitCap := false, 0, false
	for si := 0; si < nsessions; si++ {
		// the two options in either order and either spelling
		hArgs := [][]string{{"--history", path}, {fmt.Sprintf("--history-size=%d", max)}}
		if rapid.Bool().Draw(t, "sizeFirst") {
			hArgs[0], hArgs[1] = hArgs[1], hArgs[0]
		}
		if rapid.Bool().Draw(t, "equalsForm") {
			for i := range hArgs {
				if len(hArgs[i]) == 2 {
					hArgs[i] = []string{"--history=" + path}
				} else {
					hArgs[i] = []string{"--history-size", fmt.Sprint(max)}
				}
			}
		}
		s := StartSession(t, SessionCfg{Args: append(append([]string{"--no-mouse"}, hArgs[0]...), hArgs[1]...), Input: []byte("a b\nab c\nccc\n"), Width: 60, Height: 10})
		if _, ok := s.WaitFor(1, func(st *Status) bool { return !st.Reading && st.TotalCount == 3 && st.MatchCount == 3 }); !ok {
			s.Close()
			infra(t, "session did not settle (stderr %q)", s.Stderr())
		}
		trace = append(trace, fmt.Sprintf("-- session %d: fzf %s %s", si+1, strings.Join(hArgs[0], " "), strings.Join(hArgs[1], " ")))
		sess := model.NewSession()
		input := ""
		check := func(step string) {
			st, ok := s.WaitFor(1, func(st *Status) bool { return st.Query == input })
			if !ok {
				got := "<no answer>"
				if st != nil {
					got = st.Query
				}
				s.Close()
				t.Fatalf("after %s the query line is %q, expected %q\n%s", step, got, input, strings.Join(trace, "\n"))
			}
		}
		steps := rapid.IntRange(0, 10).Draw(t, "steps")
		for i := 0; i < steps; i++ {
			switch rapid.SampledFrom([]string{"edit", "prev", "prev", "next", "type", "revert", "chain", "chain"}).Draw(t, "op") {
			case "edit":
				input = rapid.StringMatching(`[a-c]{0,3}`).Draw(t, "input")
				trace = append(trace, fmt.Sprintf("change-query(%s)", input))
				s.Post("change-query(" + input + ")")
				check("change-query")
			case "chain":
				// several actions in one binding / one POST: each works on what the one before left
				k := rapid.IntRange(2, 3).Draw(t, "chainLen")
				var parts []string
				for j := 0; j < k; j++ {
					switch rapid.SampledFrom([]string{"prev-history", "prev-history", "next-history", "put", "change-query", "backward-delete-char"}).Draw(t, "chained") {
					case "prev-history":
						input = sess.Previous(input)
						navigated = true
						parts = append(parts, "prev-history")
					case "next-history":
						input = sess.Next(input)
						navigated = true
						parts = append(parts, "next-history")
					case "put":
						c := rapid.SampledFrom([]string{"a", "b", "c"}).Draw(t, "c")
						input += c
						parts = append(parts, "put("+c+")")
					case "change-query":
						input = rapid.StringMatching(`[a-c]{1,3}`).Draw(t, "input")
						parts = append(parts, "change-query("+input+")")
					case "backward-delete-char":
						if rs := []rune(input); len(rs) > 0 {
							input = string(rs[:len(rs)-1])
						}
						parts = append(parts, "end-of-line+backward-delete-char")
					}
				}
				body := strings.Join(parts, "+")
				trace = append(trace, fmt.Sprintf("%s -> expect %q", body, input))
				s.Post(body)
				check(body)
			case "revert":
				// put the entry back to what was loaded (an edit that is undone by hand)
				if !sess.AtStored() {
					continue
				}
				input = sess.Original()
				trace = append(trace, fmt.Sprintf("change-query(%s) (back to the stored text)", input))
				s.Post("change-query(" + input + ")")
				check("change-query")
			case "type":
				c := rapid.SampledFrom([]string{"a", "b", "c"}).Draw(t, "c")
				input += c
				trace = append(trace, "put("+c+")")
				s.Post("put(" + c + ")")
				check("put")
			case "prev":
				input = sess.Previous(input)
				navigated = true
				trace = append(trace, fmt.Sprintf("prev-history -> expect %q", input))
				s.Post("prev-history")
				check("prev-history")
			case "next":
				input = sess.Next(input)
				navigated = true
				trace = append(trace, fmt.Sprintf("next-history -> expect %q", input))
				s.Post("next-history")
				check("next-history")
			}
		}
		before, _ := os.ReadFile(path)
		end := rapid.SampledFrom([]string{"accept", "accept", "abort", "print-query", "accept-non-empty", "become(true)", "become(exit 1)"}).Draw(t, "end")
		if end == "accept-non-empty" {
			// documented: does not leave when there is nothing to accept. Whether there is
			// something to accept at the moment the action runs depends on the search for the
			// last query edit having finished, so the action is repeated while matches exist.
			exited := false
			var st *Status
			for try := 0; try < 4 && !exited; try++ {
				s.Post(end)
				if _, exited = s.WaitExit(2 * time.Second); exited {
					break
				}
				var ok bool
				st, ok = s.WaitFor(1, func(st *Status) bool { return st.Query == input })
				if ok && st.MatchCount == 0 {
					break
				}
			}
			if !exited {
				if st == nil || st.MatchCount != 0 {
					s.Close()
					t.Fatalf("accept-non-empty (sent 4 times) did not end the session although %s\n%s", describe(st), strings.Join(trace, "\n"))
				}
				trace = append(trace, "accept-non-empty (stays: no match)")
				end = "abort"
			}
		}
		trace = append(trace, end+fmt.Sprintf(" (query %q)", input))
		s.Post(end)
		code, ok := s.WaitExit(20 * time.Second)
		if !ok {
			s.Close()
			t.Fatalf("fzf did not exit after %s\n%s", end, strings.Join(trace, "\n"))
		}
		s.Close()
		data, _ := os.ReadFile(path)
		// a query is submitted when the session ends with a result or "no match" status,
		// or hands over to another command (become), whatever that command returns
		if code == 0 || code == 1 || strings.HasPrefix(end, "become") {
			if input != "" {
				if len(model.Entries) >= max {
					hitCap = true
				}
				sess.Submit(input)
				submitted++
				if string(data) != model.FileContent() {
					t.Fatalf("after %s (exit %d) the history file holds %q, expected %q\n%s", end, code, data, model.FileContent(), strings.Join(trace, "\n"))
				}
				continue
			}
		} else if code != 130 {
			t.Fatalf("unexpected exit status %d after %s\n%s", code, end, strings.Join(trace, "\n"))
		}
		if string(data) != string(before) {
			t.Fatalf("a session ending with %s (exit %d, query %q) changed the history file from %q to %q\n%s", end, code, input, before, data, strings.Join(trace, "\n"))
		}
	}
	nt := navigated && submitted >= 1
	vstat.Case("C18/proc-sessions", strings.Join(trace, "|"), nt, "init="+initKind, fmt.Sprintf("submitted=%d", submitted), fmt.Sprintf("hit_cap=%v", hitCap))
	if nt && vstat.WantSample("C18/proc-sessions") {
		vstat.Sample("C18/proc-sessions", trace)
	}
}

func TestVerifC18_ProcSessions(t *testing.T) {
	rapid.Check(t, c18ProcSessions)
}

// C19 at process level: fzf started with the terminal as standard input walks
// the directory itself; the list it shows must be the model's listing.
func c19ProcWalker(t *rapid.T) {
	root, err := os.MkdirTemp(workDir, "c19")
	if err != nil {
		infra(t, "%v", err)
	}
	defer os.RemoveAll(root)
	// a small tree: names from a fixed set, depth <= 3, links to directories and files
	top := &oracle.WNode{Name: ".", Kind: oracle.WDir}
	dirs := []c19Ent{{"", top}}
	names := []string{"a", "b", ".h", "d e", "src", ".git", "node_modules", "x.txt", ".env"}
	n := rapid.IntRange(1, 16).Draw(t, "entries")
	var all []c19Ent
	for i := 0; i < n; i++ {
		parent := dirs[rapid.IntRange(0, len(dirs)-1).Draw(t, "parent")]
		name := rapid.SampledFrom(names).Draw(t, "name")
		dup := false
		for _, c := range parent.node.Children {
			if c.Name == name {
				dup = true
			}
		}
		if dup || strings.Count(parent.path, "/") >= 2 {
			continue
		}
		p := filepath.Join(parent.path, name)
		node := &oracle.WNode{Name: name, Parent: parent.node}
		switch rapid.IntRange(0, 7).Draw(t, "kind") {
		case 0, 1, 2:
			node.Kind = oracle.WFile
			os.WriteFile(filepath.Join(root, p), []byte("x"), 0o644)
		case 3, 4:
			node.Kind = oracle.WDir
			os.Mkdir(filepath.Join(root, p), 0o755)
			dirs = append(dirs, c19Ent{p, node})
		case 5, 6, 7:
			if len(all) == 0 {
				continue
			}
			target := all[rapid.IntRange(0, len(all)-1).Draw(t, "target")]
			if len(dirs) > 1 && rapid.Bool().Draw(t, "linkToDir") {
				target = dirs[rapid.IntRange(1, len(dirs)-1).Draw(t, "targetDir")]
			}
			if target.node.Kind == oracle.WLink {
				continue
			}
			node.Kind, node.Target = oracle.WLink, target.node
			rel, _ := filepath.Rel(filepath.Join(root, parent.path), filepath.Join(root, target.path))
			os.Symlink(rel, filepath.Join(root, p))
		}
		parent.node.Children = append(parent.node.Children, node)
		all = append(all, c19Ent{p, node})
	}
	// a directory that cannot be read (fzf runs as an unprivileged user then): it is listed, its
	// content cannot be, and everything else is listed as usual
	locked := rapid.IntRange(0, 3).Draw(t, "unreadableDir") == 0
	if !nobodyCanWork() {
		// this copy of the harness lives where the unprivileged user cannot go (e.g. below /root):
		// everything is readable for root, the unreadable directory cannot be staged
		locked = false
	}
	if locked {
		os.Chmod(root, 0o755)
		dirName := rapid.SampledFrom([]string{"locked", "a-locked", "zz-locked"}).Draw(t, "lockedName")
		for _, c := range top.Children {
			if c.Name == dirName {
				locked = false
			}
		}
		if locked {
			lp := filepath.Join(root, dirName)
			os.Mkdir(lp, 0o755)
			os.WriteFile(filepath.Join(lp, "inside-1"), []byte("x"), 0o644)
			os.WriteFile(filepath.Join(lp, "inside-2"), []byte("x"), 0o644)
			os.Chmod(lp, 0o000)
			defer os.Chmod(lp, 0o755)
			node := &oracle.WNode{Name: dirName, Kind: oracle.WDir, Parent: top}
			top.Children = append(top.Children, node)
			all = append(all, c19Ent{dirName, node})
		}
	}
	o := oracle.WalkOpts{File: rapid.Bool().Draw(t, "file"), Dir: rapid.Bool().Draw(t, "dir"), Follow: rapid.Bool().Draw(t, "follow"), Hidden: rapid.Bool().Draw(t, "hidden")}
	if !o.File && !o.Dir {
		o.File = true
	}
	// a root spelled "link/.." is only combined with a walk that does not follow links: which
	// links are followed below a root whose spelling itself goes through a link is not documented
	rootForm := rapid.IntRange(0, 4).Draw(t, "rootForm")
	if rootForm >= 2 {
		o.Follow = false
	}
	var w []string
	for _, f := range []struct {
		on   bool
		name string
	}{{o.File, "file"}, {o.Dir, "dir"}, {o.Follow, "follow"}, {o.Hidden, "hidden"}} {
		if f.on {
			w = append(w, f.name)
		}
	}
	skips := rapid.SampledFrom([][]string{{".git", "node_modules"}, {"src"}, {"a/b"}, {}, {}, {}, nil, nil}).Draw(t, "skip")
	args := []string{"--no-mouse", "--walker=" + strings.Join(w, ",")}
	if rapid.IntRange(0, 2).Draw(t, "earlierSkip") == 0 {
		// an earlier occurrence is overridden by the later one
		args = append(args, "--walker-skip", rapid.SampledFrom([]string{"a", "src,b", ".h"}).Draw(t, "earlier"))
		if skips == nil {
			skips = []string{}
		}
	}
	switch {
	case skips == nil:
		skips = []string{".git", "node_modules"} // option not given: documented default
	case len(skips) == 0:
		args = append(args, "--walker-skip", "") // an empty list: nothing is pruned
	default:
		args = append(args, "--walker-skip="+strings.Join(skips, ","))
	}
	// the directory to walk: the current one, or one named by --walker-root in one of its spellings
	walkNode, walkPath := top, "."
	switch rootForm {
	case 1:
		if len(dirs) > 1 {
			d := dirs[rapid.IntRange(1, len(dirs)-1).Draw(t, "rootDir")]
			// (whether a root that is itself hidden or named like a skipped directory is walked is not documented)
			plain := !strings.HasPrefix(d.node.Name, ".")
			for _, sk := range skips {
				if sk == d.node.Name || strings.HasSuffix(d.path, sk) {
					plain = false
				}
			}
			if plain {
				walkNode, walkPath = d.node, rapid.SampledFrom([]string{"%s", "%s/", "./%s", "././%s"}).Draw(t, "rootSpelling")
				walkPath = fmt.Sprintf(walkPath, d.path)
			}
		}
	case 2, 3:
		// through a symbolic link and up again: the parent of the link's target, not of the link
		for _, e := range all {
			if e.node.Kind == oracle.WLink && e.node.Target.Kind == oracle.WDir && e.node.Target.Parent != nil {
				walkNode, walkPath = e.node.Target.Parent, e.path+"/.."
				break
			}
		}
	}
	if walkPath != "." {
		args = append(args, "--walker-root", walkPath)
	}
	s := StartSession(t, SessionCfg{Args: args, NoStdin: true, Cwd: root, Width: 80, Height: 30, Env: []string{"FZF_DEFAULT_COMMAND="}, AsNobody: locked})
	defer s.Close()
	// reading is over when the flag is off and the count has stopped moving
	var st *Status
	lastCount, stable := -1, 0
	for deadline := time.Now().Add(20 * time.Second); time.Now().Before(deadline); time.Sleep(40 * time.Millisecond) {
		cur, err := s.Get(1000, 0)
		if err != nil || cur.Reading {
			stable = 0
			continue
		}
		if cur.TotalCount == lastCount && cur.MatchCount == cur.TotalCount {
			stable++
		} else {
			stable = 0
		}
		lastCount, st = cur.TotalCount, cur
		if stable >= 4 {
			break
		}
	}
	if st == nil || stable < 4 {
		infra(t, "walker session did not finish reading (stderr %q)", s.Stderr())
	}
	var got []string
	for _, m := range st.Matches {
		got = append(got, m.Text)
	}
	sort.Strings(got)
	want := oracle.Walk(walkNode, walkPath, o, skips)
	desc := fmt.Sprintf("walker=%s skip=%v root=%q tree=%s", strings.Join(w, ","), skips, walkPath, describeTree(all))
	hasLink := false
	for _, e := range all {
		if e.node.Kind == oracle.WLink {
			hasLink = true
		}
	}
	rootLabel := "cwd"
	if strings.HasSuffix(walkPath, "/..") {
		rootLabel = "through-link-and-up"
	} else if walkPath != "." {
		rootLabel = "named-directory"
	}
	vstat.Case("C19/proc-walker", desc, len(all) >= 4 && (hasLink || !o.Hidden), "walker="+strings.Join(w, ","), "root="+rootLabel, fmt.Sprintf("unreadable_dir=%v", locked))
	if msg := oracle.CheckWalk(got, want); msg != "" {
		t.Fatalf("%s\nlisted: %q\nmust: %q\nmay: %q\n%s", msg, got, want.Must, want.May, desc)
	}
	if st.TotalCount != len(got) {
		t.Fatalf("total count %d but %d lines listed\n%s", st.TotalCount, len(got), desc)
	}
	s.Post("abort")
	s.WaitExit(10 * time.Second)
}

type c19Ent struct {
	path string
	node *oracle.WNode
}

func describeTree(all []c19Ent) string {
	var parts []string
	for _, e := range all {
		switch e.node.Kind {
		case oracle.WFile:
			parts = append(parts, e.path)
		case oracle.WDir:
			parts = append(parts, e.path+"/")
		case oracle.WLink:
			for _, x := range all {
				if x.node == e.node.Target {
					parts = append(parts, e.path+" -> "+x.path)
				}
			}
		}
	}
	return fmt.Sprintf("%q", parts)
}

func TestVerifC19_ProcWalker(t *testing.T) {
	rapid.Check(t, c19ProcWalker)
}

// The walker feeding filter mode (fzf --filter with the terminal as standard input lists the
// files itself): a tree of a few thousand files in many directories, so that the walker's
// workers deliver entries at the same time. Every file is printed exactly once, whichever way
// the filter runs (streaming with --no-sort, sorted, reversed, synchronous).
var c19BigTreeOnce sync.Once
var c19BigTreeDir string
var c19BigTreeFiles []string

func c19BigTree() (string, []string) {
	c19BigTreeOnce.Do(func() {
		dir, err := os.MkdirTemp(workDir, "c19big")
		if err != nil {
			return
		}
		for d := 0; d < 48; d++ {
			sub := filepath.Join(dir, fmt.Sprintf("d%02d", d), fmt.Sprintf("s%d", d%3))
			os.MkdirAll(sub, 0o755)
			for f := 0; f < 110; f++ {
				rel := filepath.Join(fmt.Sprintf("d%02d", d), fmt.Sprintf("f%03d-%02d.txt", f, d))
				if f%4 == 0 {
					rel = filepath.Join(fmt.Sprintf("d%02d", d), fmt.Sprintf("s%d", d%3), fmt.Sprintf("g%03d-%02d.txt", f, d))
				}
				os.WriteFile(filepath.Join(dir, rel), nil, 0o644)
				c19BigTreeFiles = append(c19BigTreeFiles, rel)
			}
		}
		c19BigTreeDir = dir
	})
	return c19BigTreeDir, c19BigTreeFiles
}

func c19WalkerFilter(t *rapid.T) {
	dir, files := c19BigTree()
	if dir == "" {
		infra(t, "cannot build the tree")
	}
	query := rapid.SampledFrom([]string{"", "", "f0", "g1", "d07"}).Draw(t, "query")
	mode := rapid.SampledFrom([]string{"--no-sort", "--no-sort", "", "--tac --no-sort", "--sync --no-sort", "--tac"}).Draw(t, "mode")
	args := []string{"--filter", query, "--walker=file"}
	args = append(args, strings.Fields(mode)...)
	s := StartSession(t, SessionCfg{Args: args, NoStdin: true, NoListen: true, Cwd: dir, Width: 80, Height: 12, Env: []string{"FZF_DEFAULT_COMMAND="}})
	defer s.Close()
	code, ok := s.WaitExit(60 * time.Second)
	if !ok {
		infra(t, "fzf --filter did not finish within 60 s")
	}
	var want []string
	for _, f := range files {
		if query == "" || simpleFuzzy(query, f) {
			want = append(want, f)
		}
	}
	got := strings.Split(strings.TrimSuffix(string(s.Stdout()), "\n"), "\n")
	if len(s.Stdout()) == 0 {
		got = nil
	}
	vstat.Case("C19/walker-filter", fmt.Sprintf("%q", args), mode == "--no-sort", "mode="+mode, "query="+query)
	count := map[string]int{}
	for _, g := range got {
		count[g]++
	}
	missing, twice, extra := 0, 0, 0
	example := ""
	for _, w := range want {
		switch c := count[w]; {
		case c == 0:
			missing++
			if example == "" {
				example = w + " is missing"
			}
		case c > 1:
			twice++
			if example == "" {
				example = fmt.Sprintf("%s is printed %d times", w, c)
			}
		}
		delete(count, w)
	}
	for g := range count {
		extra++
		if example == "" {
			example = g + " is printed but does not match / does not exist"
		}
	}
	if missing+twice+extra > 0 || code != 0 && len(want) > 0 {
		t.Fatalf("fzf %q in a tree of %d files (status %d): %d lines printed, %d expected; %d files missing, %d printed more than once, %d unexpected lines; e.g. %s", args, len(files), code, len(got), len(want), missing, twice, extra, example)
	}
}

func TestVerifC19_ProcWalkerFilter(t *testing.T) {
	rapid.Check(t, c19WalkerFilter)
}

var nobodyOnce sync.Once
var nobodyOK bool

// nobodyCanWork tells whether a process running as "nobody" can enter the work directory.
func nobodyCanWork() bool {
	nobodyOnce.Do(func() {
		probe, err := os.MkdirTemp(workDir, "nobody-probe")
		if err != nil {
			return
		}
		defer os.RemoveAll(probe)
		os.Chmod(probe, 0o777)
		nobodyOK = exec.Command("setpriv", "--reuid=65534", "--regid=65534", "--clear-groups", "sh", "-c", "echo x > "+shQuote(filepath.Join(probe, "f"))).Run() == nil
	})
	return nobodyOK
}
