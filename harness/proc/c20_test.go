//go:build verif

package proc

import (
	"fmt"
	"os"
	"path/filepath"
	"strconv"
	"strings"
	"syscall"
	"testing"
	"time"

	"pgregory.net/rapid"
	"verif.local/vstat"
)

// C20 - the preview always catches up with the focused line.

const pvScript = `#!/bin/sh
# args: LOG MODE N Q ITEM [SEL...]            (ITEM may be a file when MODE ends with -f)
#   or: LOG MODE-pf [SEL...] -- N Q ITEM      (selection first)
log=$1; mode=$2; shift 2
sel=""
case $mode in
  *-pf) mode=${mode%-pf}
        while [ "$1" != "--" ]; do sel="$sel|$1"; shift; done
        shift; n=$1; q=$2; item=$3 ;;
  *)    n=$1; q=$2; item=$3; shift 3
        for a in "$@"; do sel="$sel|$a"; done ;;
esac
case $mode in *-f) item=$(cat "$item"); mode=${mode%-f};; esac
line="start $$ $mode|$n|$q|$item$sel"
printf '%s\n' "$line" >> "$log"
case $mode in delayed) sleep 0.7 ;; esac
echo "TOK<$n/$q/$item>"
echo "L2<$n/$q/$item>"
echo "L3<$n/$q/$item>"
case $mode in
  instant|delayed) ;;
  slow) sleep 0.25; echo "done-slow" ;;
  never) echo "partial output"; exec sleep 1000 ;;
  chunks) for i in 1 2 3 4; do echo "chunk $i"; sleep 0.06; done ;;
esac
`

type pvRun struct {
	pid  int
	args string
}

func readPvLog(path string) []pvRun {
	b, _ := os.ReadFile(path)
	var runs []pvRun
	for _, l := range strings.Split(string(b), "\n") {
		if !strings.HasPrefix(l, "start ") {
			continue
		}
		rest := l[6:]
		i := strings.IndexByte(rest, ' ')
		if i < 0 {
			continue
		}
		pid, _ := strconv.Atoi(rest[:i])
		runs = append(runs, pvRun{pid, rest[i+1:]})
	}
	return runs
}

func ppidOf(pid int) int {
	b, err := os.ReadFile(fmt.Sprintf("/proc/%d/stat", pid))
	if err != nil {
		return 0
	}
	i := strings.LastIndexByte(string(b), ')')
	f := strings.Fields(string(b[i+1:]))
	if len(f) < 2 {
		return 0
	}
	p, _ := strconv.Atoi(f[1])
	return p
}

// livePreviewRuns maps the live preview processes of the session to the runs
// (by logged pid) they belong to.
func livePreviewRuns(s *Session, runs []pvRun) map[int][]string {
	byPid := map[int]int{}
	for i, r := range runs {
		byPid[r.pid] = i
	}
	// fzf runs "sh -c <command>": the logged pid is a child of that shell
	for i, r := range runs {
		if pp := ppidOf(r.pid); pp > 1 && pp != s.Pid {
			if _, known := byPid[pp]; !known {
				byPid[pp] = i
			}
		}
	}
	out := map[int][]string{}
	for _, p := range s.TaggedProcesses() {
		if !strings.Contains(p, "pv.sh") && !strings.Contains(p, "sleep 1000") && !strings.Contains(p, "sleep 0.") {
			continue
		}
		if strings.Contains(p, "sleep 1000000") {
			continue
		}
		pid, _ := strconv.Atoi(strings.SplitN(p, ":", 2)[0])
		if pid == s.Pid || strings.Contains(p, ":"+fzfBin+" ") {
			continue // fzf itself (its command line contains the template)
		}
		run, ok := byPid[pid]
		for hop := 0; !ok && hop < 3; hop++ {
			pid = ppidOf(pid)
			if pid <= 1 {
				break
			}
			run, ok = byPid[pid]
		}
		if !ok {
			run = -1
		}
		out[run] = append(out[run], p)
	}
	return out
}

func c20Session(t *rapid.T) {
	n := rapid.SampledFrom([]int{1, 4, 12, 40}).Draw(t, "nlines")
	lines := make([]string, n)
	for i := range lines {
		lines[i] = fmt.Sprintf("it%d %s", i, []string{"ab", "b a", "x-y", "a'q", "zz"}[i%5])
	}
	mode := rapid.SampledFrom([]string{"instant", "slow", "never", "chunks", "delayed"}).Draw(t, "mode")
	useFile := rapid.IntRange(0, 3).Draw(t, "useF") == 0
	plus := rapid.Bool().Draw(t, "plus")
	dir, err := os.MkdirTemp(workDir, "c20")
	if err != nil {
		infra(t, "%v", err)
	}
	defer os.RemoveAll(dir)
	pv := filepath.Join(dir, "pv.sh")
	os.WriteFile(pv, []byte(pvScript), 0o755)
	logf := filepath.Join(dir, "pv.log")
	// every template draws which of {n} / {q} it refers to (a literal stands in
	// for an omitted placeholder so that the positions stay the same)
	useN, useQ, plusFirst := true, true, false
	drawUses := func() {
		plusFirst = rapid.Bool().Draw(t, "plusFirst")
		useN = rapid.IntRange(0, 3).Draw(t, "useN") != 0
		useQ = rapid.IntRange(0, 2).Draw(t, "useQ") != 0
	}
	tmpl := func(m string) string {
		item := "{}"
		if useFile {
			item = "{f}"
			m += "-f"
		}
		nn, qq := "{n}", "{q}"
		if !useN {
			nn = "NON"
		}
		if !useQ {
			qq = "NOQ"
		}
		if plus && plusFirst {
			// the selection placeholder before the others
			return fmt.Sprintf("sh %s %s %s-pf {+} -- %s %s %s", pv, logf, m, nn, qq, item)
		}
		c := fmt.Sprintf("sh %s %s %s %s %s %s", pv, logf, m, nn, qq, item)
		if plus {
			c += " {+}"
		}
		return c
	}
	drawUses()
	startQ, qInstalled, qEditAfterInstall := useQ, false, false
	args := []string{"--no-mouse", "--no-sort", "--preview", tmpl(mode), "--preview-window", "right,60%"}
	multi := plus || rapid.Bool().Draw(t, "multi")
	if multi {
		args = append(args, "--multi")
	}
	if rapid.IntRange(0, 3).Draw(t, "searchDisabled") == 0 {
		// the query is only a parameter of the preview command
		args = append(args, "--disabled")
	}
	s := StartSession(t, SessionCfg{Args: args, Input: []byte(strings.Join(lines, "\n") + "\n"), Width: 110, Height: 16})
	defer s.Close()
	history := []string{fmt.Sprintf("fzf %q (%d lines)", args, n)}
	curMode := mode
	visible := true
	superseded := false
	nField := func(st *Status) string {
		if useN {
			return strconv.Itoa(st.Current.Index)
		}
		return "NON"
	}
	qField := func(st *Status) string {
		if useQ {
			return st.Query
		}
		return "NOQ"
	}
	expectedArgs := func(st *Status) string {
		e := fmt.Sprintf("%s|%s|%s|%s", curMode, nField(st), qField(st), st.Current.Text)
		if plus {
			if len(st.Selected) == 0 {
				e += "|" + st.Current.Text
			}
			for _, it := range st.Selected {
				e += "|" + it.Text
			}
		}
		return e
	}
	quiesce := func(step string) {
		var st *Status
		var runs []pvRun
		var why string
		idle := 0
		deadline := time.Now().Add(40 * time.Second)
		lastSig := ""
		for {
			cur, err := s.Get(100, 0)
			if err == nil && !cur.Reading {
				st = cur
				runs = readPvLog(logf)
				why = ""
				if visible && st.Current != nil {
					if len(runs) == 0 {
						why = "no preview command was started"
					} else if last := runs[len(runs)-1]; last.args != expectedArgs(st) {
						why = fmt.Sprintf("the preview command that ran last got %q, the focused line / query / selection give %q", last.args, expectedArgs(st))
					} else {
						tok := fmt.Sprintf("TOK<%s/%s/%s>", nField(st), qField(st), st.Current.Text)
						if scr := strings.Join(s.Capture(), "\n"); len(tok) < 60 {
							if !strings.Contains(scr, tok) {
								why = fmt.Sprintf("the preview window does not show the output of the last run (%s)", tok)
							} else {
								// every line of the window belongs to the last run
								body := strings.TrimPrefix(tok, "TOK")
								for _, tag := range []string{"L2", "L3"} {
									for _, row := range strings.Split(scr, "\n") {
										if i := strings.Index(row, tag+"<"); i >= 0 && !strings.Contains(row, tag+body) {
											why = fmt.Sprintf("line %s of the preview window is not from the last run (%s): %q", tag, tok, strings.TrimSpace(row[i:]))
										}
									}
									if why == "" && !strings.Contains(scr, tag+body) {
										why = fmt.Sprintf("the preview window does not show line %s of the last run (%s)", tag, tok)
									}
								}
							}
						}
					}
				}
				if why == "" {
					// superseded runs must be gone, at most the latest one may still be alive
					live := livePreviewRuns(s, runs)
					for run, procs := range live {
						if run != len(runs)-1 {
							why = fmt.Sprintf("a superseded preview command is still running (run %d of %d): %v", run+1, len(runs), procs)
						}
					}
				}
				if why == "" {
					return
				}
				sig := fmt.Sprint(len(runs), why, st.Query, st.Position)
				if sig == lastSig {
					idle++
				} else {
					idle = 0
				}
				lastSig = sig
			}
			if !s.Alive() {
				t.Fatalf("fzf exited during %s\nhistory:\n  %s", step, strings.Join(history, "\n  "))
			}
			// stable and wrong for 4 s (cancel grace is 500 ms) or the cap
			if idle > 80 || time.Now().After(deadline) {
				break
			}
			time.Sleep(50 * time.Millisecond)
		}
		var tail []string
		for i := len(runs) - 4; i < len(runs); i++ {
			if i >= 0 {
				tail = append(tail, runs[i].args)
			}
		}
		t.Fatalf("after %s the preview does not catch up: %s\nstate: %s\nlast runs: %q\nscreen:\n%s\nhistory:\n  %s", step, why, describe(st), tail, strings.Join(s.Capture(), "\n"), strings.Join(history, "\n  "))
	}
	quiesce("start")
	nsteps := rapid.IntRange(3, 16).Draw(t, "steps")
	for i := 0; i < nsteps; i++ {
		a := rapid.SampledFrom([]string{"up", "down", "up", "down", "first", "last", "pos(3)", "put(a)", "put(b)", "put( )", "put( )", "beginning-of-line+put( )+end-of-line", "toggle-search", "backward-delete-char", "change-query(it1)", "clear-query", "toggle", "toggle-all", "refresh-preview",
			"toggle-preview", "change-preview-window(up,50%)", "change-preview-window(right,60%)", "change-preview", "change-preview", "change-preview", "burst", "scroll-then-move"}).Draw(t, "action")
		gap := time.Duration(rapid.SampledFrom([]int{0, 0, 5, 30, 120, 200}).Draw(t, "gapMs")) * time.Millisecond
		switch a {
		case "toggle-preview":
			visible = !visible
		case "change-preview-window(up,50%)", "change-preview-window(right,60%)":
			visible = true // a window specification without "hidden" shows the window
		case "change-preview":
			curMode = rapid.SampledFrom([]string{"instant", "slow", "never", "chunks", "delayed"}).Draw(t, "newMode")
			wasQ := useQ
			drawUses()
			if !startQ && !wasQ && useQ {
				qInstalled = true
			}
			a = "change-preview(" + tmpl(curMode) + ")"
		case "toggle", "toggle-all":
			if !multi {
				a = "down"
			}
		case "scroll-then-move":
			// the preview of one line is scrolled, then another line is focused: its preview starts at the top
			a = ""
			if st, err := s.Get(1, 0); err == nil && st.MatchCount >= 2 && visible {
				k := rapid.IntRange(1, 4).Draw(t, "scrollBy")
				scroll := strings.TrimSuffix(strings.Repeat(rapid.SampledFrom([]string{"preview-down+", "preview-half-page-down+"}).Draw(t, "scrollAction"), k), "+")
				s.Post(scroll)
				history = append(history, "POST "+scroll)
				time.Sleep(time.Duration(rapid.SampledFrom([]int{0, 30, 150}).Draw(t, "scrollGapMs")) * time.Millisecond)
				a = "up"
				if st.Position >= st.MatchCount-1 {
					a = "down"
				}
			}
		case "burst":
			// cursor movements faster than a process can start
			k := rapid.IntRange(3, 12).Draw(t, "burstLen")
			for j := 0; j < k; j++ {
				s.Post(rapid.SampledFrom([]string{"down", "up", "down"}).Draw(t, "b"))
			}
			history = append(history, fmt.Sprintf("burst of %d moves", k))
			superseded = true
			a = ""
		}
		if qInstalled && (strings.HasPrefix(a, "put(") || a == "backward-delete-char" || strings.HasPrefix(a, "change-query") || a == "clear-query") {
			qEditAfterInstall = true
		}
		if a != "" {
			history = append(history, "POST "+a)
			if code, err := s.Post(a); err != nil || code != 200 {
				t.Fatalf("POST %s answered %d %v\nhistory:\n  %s", a, code, err, strings.Join(history, "\n  "))
			}
		}
		if gap > 0 {
			time.Sleep(gap)
		} else {
			superseded = superseded || curMode != "instant"
		}
		if rapid.IntRange(0, 2).Draw(t, "settle") == 0 {
			quiesce("step " + a)
		}
	}
	quiesce("end of history")
	end := rapid.SampledFrom([]string{"accept", "abort", "SIGTERM"}).Draw(t, "end")
	history = append(history, "end: "+end)
	switch end {
	case "SIGTERM":
		s.Signal(syscall.SIGTERM)
	default:
		s.Post(end)
	}
	if _, ok := s.WaitExit(20 * time.Second); !ok {
		t.Fatalf("fzf did not exit\nhistory:\n  %s", strings.Join(history, "\n  "))
	}
	// none survives the end of the session
	var left map[int][]string
	var temps []string
	deadline := time.Now().Add(3 * time.Second)
	for {
		left = livePreviewRuns(s, readPvLog(logf))
		temps = s.TempFiles()
		if len(left) == 0 && len(temps) == 0 || time.Now().After(deadline) {
			break
		}
		time.Sleep(50 * time.Millisecond)
	}
	nt := superseded && curMode != "instant" || superseded && mode != "instant"
	vstat.Case("C20/session", strings.Join(history, "|"), nt, "mode="+mode, fmt.Sprintf("query_edit_after_change_preview_installed_q=%v", qEditAfterInstall), fmt.Sprintf("useF=%v", useFile), fmt.Sprintf("plus=%v", plus), "end="+end)
	if nt && vstat.WantSample("C20/session") {
		vstat.Sample("C20/session", map[string]interface{}{"history": history, "runs": len(readPvLog(logf))})
	}
	if len(left) > 0 || len(temps) > 0 {
		t.Fatalf("after the end of the session preview processes %v / temp files %v are left\nhistory:\n  %s", left, temps, strings.Join(history, "\n  "))
	}
}

func TestVerifC20_Sessions(t *testing.T) {
	rapid.Check(t, c20Session)
}

// A preview command that is superseded right after it was started must still
// be cancelled: the cancel request can arrive before the goroutine that
// listens for it exists.
func TestVerifC20_SupersededAtStart(t *testing.T) {
	rapid.Check(t, func(t *rapid.T) {
		dir, err := os.MkdirTemp(workDir, "c20b")
		if err != nil {
			infra(t, "%v", err)
		}
		defer os.RemoveAll(dir)
		pv := filepath.Join(dir, "pv.sh")
		os.WriteFile(pv, []byte(pvScript), 0o755)
		logf := filepath.Join(dir, "pv.log")
		lines := []string{"it0 ab", "it1 b a", "it2 x-y", "it3 aq", "it4 zz", "it5 ab"}
		args := []string{"--no-mouse", "--no-sort", "--preview", fmt.Sprintf("sh %s %s never {n} {q} {}", pv, logf), "--preview-window", "right,60%"}
		s := StartSession(t, SessionCfg{Args: args, Input: []byte(strings.Join(lines, "\n") + "\n"), Width: 100, Height: 12})
		defer s.Close()
		if _, ok := s.WaitFor(10, func(st *Status) bool { return !st.Reading && st.MatchCount == len(lines) }); !ok {
			infra(t, "session did not settle")
		}
		rounds := rapid.IntRange(3, 10).Draw(t, "rounds")
		history := []string{}
		// CPU contention widens the window between the start of a preview command and
		// the moment its canceller listens
		stopBurn := make(chan struct{})
		for b := 0; b < 6; b++ {
			go func() {
				x := 0
				for {
					select {
					case <-stopBurn:
						return
					default:
						for i := 0; i < 100000; i++ {
							x += i
						}
					}
				}
			}()
		}
		defer close(stopBurn)
		for r := 0; r < rounds; r++ {
			a := rapid.SampledFrom([]string{"down", "up", "last", "first"}).Draw(t, "move")
			b := rapid.SampledFrom([]string{"put(a)", "backward-delete-char", "put(b)", "clear-query"}).Draw(t, "edit")
			gap := rapid.SampledFrom([]int{0, 0, 1, 3, 8, 20}).Draw(t, "gapMs")
			s.Post(a)
			time.Sleep(time.Duration(gap) * time.Millisecond)
			s.Post(b)
			history = append(history, fmt.Sprintf("%s, %dms, %s", a, gap, b))
			time.Sleep(time.Duration(rapid.SampledFrom([]int{0, 10, 60}).Draw(t, "pauseMs")) * time.Millisecond)
		}
		// quiescence: the last started command is the one for the current state
		var st *Status
		var runs []pvRun
		why := ""
		idle, lastSig := 0, ""
		deadline := time.Now().Add(40 * time.Second)
		for {
			cur, err := s.Get(10, 0)
			if err == nil && !cur.Reading {
				st = cur
				runs = readPvLog(logf)
				why = ""
				if st.Current != nil {
					want := fmt.Sprintf("never|%d|%s|%s", st.Current.Index, st.Query, st.Current.Text)
					if len(runs) == 0 || runs[len(runs)-1].args != want {
						last := "<none>"
						if len(runs) > 0 {
							last = runs[len(runs)-1].args
						}
						why = fmt.Sprintf("the preview command that ran last got %q, the focused line / query give %q", last, want)
					} else if live := livePreviewRuns(s, runs); len(live) > 1 {
						why = fmt.Sprintf("%d preview commands are alive", len(live))
					}
				}
				if why == "" {
					break
				}
				sig := fmt.Sprint(len(runs), why)
				if sig == lastSig {
					idle++
				} else {
					idle = 0
				}
				lastSig = sig
			}
			if idle > 80 || time.Now().After(deadline) || !s.Alive() {
				break
			}
			time.Sleep(50 * time.Millisecond)
		}
		vstat.Case("C20/superseded-at-start", strings.Join(history, "|"), true, fmt.Sprintf("rounds=%d", rounds))
		if why != "" {
			t.Fatalf("the preview does not catch up: %s\nstate: %s\nhistory (move, gap, edit): %v", why, describe(st), history)
		}
		s.Post("abort")
	})
}

// A preview whose output arrives in two parts is scrolled while the command is still running,
// then the rest arrives. When everything is quiet the window shows the complete output at the
// offset it was scrolled to: consecutive lines from the top row on, down to the last line of the
// output or to the bottom of the window.
func c20ScrolledWhileStreaming(t *rapid.T) {
	const paneH = 14
	n1 := rapid.SampledFrom([]int{3, 10, 14, 15, 30, 40, 60}).Draw(t, "firstPart")
	n2 := n1 + rapid.IntRange(1, 20).Draw(t, "secondPart")
	pause := rapid.SampledFrom([]int{4, 6, 9}).Draw(t, "pauseTenths")
	cmd := fmt.Sprintf("seq 1 %d | sed s/^/L/; sleep 0.%d; seq %d %d | sed s/^/L/", n1, pause, n1+1, n2)
	args := []string{"--no-mouse", "--preview", cmd, "--preview-window", "right,50%,border-none"}
	if rapid.IntRange(0, 3).Draw(t, "follow") == 0 {
		args[len(args)-1] += ",follow"
	}
	s := StartSession(t, SessionCfg{Args: args, Input: []byte("one\ntwo\n"), Width: 80, Height: paneH})
	defer s.Close()
	history := []string{fmt.Sprintf("fzf %q", args)}
	previewLines := func() []int {
		var out []int
		for _, row := range s.Capture() {
			r := []rune(row)
			if len(r) <= 40 {
				continue
			}
			right := strings.TrimSpace(string(r[40:]))
			if f := strings.Fields(right); len(f) > 0 && strings.HasPrefix(f[0], "L") {
				if v, err := strconv.Atoi(f[0][1:]); err == nil {
					out = append(out, v)
				}
			}
		}
		return out
	}
	// the first part is on the screen
	deadline := time.Now().Add(20 * time.Second)
	for {
		if ls := previewLines(); len(ls) > 0 {
			break
		}
		if time.Now().After(deadline) {
			infra(t, "the preview did not start")
		}
		time.Sleep(10 * time.Millisecond)
	}
	nscroll := rapid.IntRange(0, 6).Draw(t, "scrolls")
	for i := 0; i < nscroll; i++ {
		a := rapid.SampledFrom([]string{"preview-page-down", "preview-page-down", "preview-half-page-down", "preview-down", "preview-down+preview-down+preview-down", "preview-bottom", "preview-up", "preview-page-up"}).Draw(t, "scroll")
		s.Post(a)
		history = append(history, "POST "+a)
		time.Sleep(time.Duration(rapid.SampledFrom([]int{0, 10, 40}).Draw(t, "gapMs")) * time.Millisecond)
	}
	// quiescence: the command has ended (nothing of it is alive) and the screen is stable
	var shown []int
	why := ""
	stableSince := time.Now()
	prev := ""
	deadline = time.Now().Add(30 * time.Second)
	for {
		shown = previewLines()
		cur := fmt.Sprint(shown)
		if cur != prev {
			prev, stableSince = cur, time.Now()
		}
		why = ""
		if len(shown) == 0 {
			why = "no line of the output is shown"
		} else {
			for i := 1; i < len(shown); i++ {
				if shown[i] != shown[i-1]+1 {
					why = fmt.Sprintf("lines %d and %d follow each other", shown[i-1], shown[i])
				}
			}
			if why == "" && shown[len(shown)-1] != n2 && len(shown) < paneH {
				why = fmt.Sprintf("the window ends with line %d of %d although %d rows are left", shown[len(shown)-1], n2, paneH-len(shown))
			}
		}
		if why == "" && time.Since(stableSince) > 300*time.Millisecond {
			break
		}
		// wrong and stable well after the command must have ended
		if why != "" && time.Since(stableSince) > 3*time.Second {
			break
		}
		if time.Now().After(deadline) {
			break
		}
		time.Sleep(30 * time.Millisecond)
	}
	scrolledPastEnd := nscroll > 0 && len(shown) > 0 && shown[0]+paneH-1 > n1
	vstat.Case("C20/scrolled-while-streaming", strings.Join(history, "|")+fmt.Sprint(n1, n2), scrolledPastEnd, fmt.Sprintf("scrolls=%d", imin(nscroll, 3)), fmt.Sprintf("first_part_fills_window=%v", n1 >= paneH))
	if why != "" {
		if pt := s.panicText(); pt != "" {
			t.Fatalf("fzf crashed\nhistory:\n  %s\n%s", strings.Join(history, "\n  "), pt)
		}
		t.Fatalf("the preview command printed %d lines (%d, a pause, the rest) and has ended; the window shows the lines %v: %s\nscreen:\n%s\nhistory:\n  %s", n2, n1, shown, why, strings.Join(s.Capture(), "\n"), strings.Join(history, "\n  "))
	}
	s.Post("abort")
}

func TestVerifC20_ScrolledWhileStreaming(t *testing.T) {
	rapid.Check(t, c20ScrolledWhileStreaming)
}
