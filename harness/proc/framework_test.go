//go:build verif

package proc

import (
	"io"
	"bufio"
	"bytes"
	"encoding/json"
	"fmt"
	"net"
	"os"
	"os/exec"
	"path/filepath"
	"strconv"
	"strings"
	"sync"
	"syscall"
	"testing"
	"time"

	_ "pgregory.net/rapid"
	"verif.local/vstat"
)

// Process-level harness: the real fzf binary (built from the tree under test)
// runs inside a private tmux server (real pty + terminal emulator) and is
// driven through --listen, send-keys and resize-window.

var (
	fzfBin   string
	workDir  string
	tmuxSock string
	tmuxEnv  []string
	sessSeq  int
	srvOnce  sync.Once
	srvErr   error
)

func TestMain(m *testing.M) {
	fzfBin = os.Getenv("VERIF_FZF")
	workDir = os.Getenv("VERIF_WORK")
	if workDir == "" {
		workDir, _ = os.MkdirTemp("", "verif-proc")
	}
	tmuxSock = fmt.Sprintf("verif-%d", os.Getpid())
	os.MkdirAll(filepath.Join(workDir, "tmux"), 0o755)
	tmuxEnv = append(os.Environ(), "TMUX_TMPDIR="+filepath.Join(workDir, "tmux"))
	// never inherit an outer tmux
	for i, e := range tmuxEnv {
		if strings.HasPrefix(e, "TMUX=") || strings.HasPrefix(e, "TMUX_PANE=") {
			tmuxEnv[i] = "VERIF_IGNORED=1"
		}
	}
	code := m.Run()
	if tmuxStarted {
		tmux("kill-server")
	}
	vstat.Flush()
	os.Exit(code)
}

func thorough() bool { return vstat.Tier() == "thorough" }

var tmuxStarted bool

func tmux(args ...string) (string, error) {
	cmd := exec.Command("tmux", append([]string{"-L", tmuxSock, "-f", "/dev/null"}, args...)...)
	cmd.Env = tmuxEnv
	out, err := cmd.CombinedOutput()
	return strings.TrimRight(string(out), "\n"), err
}

type fataler interface {
	Fatalf(format string, args ...any)
}

// infra aborts the case with an infrastructure error (never a verdict about fzf).
func infra(t fataler, format string, args ...any) {
	t.Fatalf("VERIF-INFRA: "+format, args...)
}

func ensureServer(t fataler) {
	srvOnce.Do(func() {
		if fzfBin == "" {
			srvErr = fmt.Errorf("VERIF_FZF not set")
			return
		}
		if _, err := tmux("new-session", "-d", "-s", "keeper", "-x", "80", "-y", "24", "sleep 1000000"); err != nil {
			srvErr = fmt.Errorf("cannot start the private tmux server: %v", err)
			return
		}
		tmuxStarted = true
		tmux("set-option", "-g", "remain-on-exit", "off")
		tmux("set-option", "-g", "history-limit", "0")
		tmux("set-option", "-g", "escape-time", "0")
	})
	if srvErr != nil {
		infra(t, "%v", srvErr)
	}
}

type Status struct {
	Reading    bool         `json:"reading"`
	Progress   int          `json:"progress"`
	Query      string       `json:"query"`
	Position   int          `json:"position"`
	Sort       bool         `json:"sort"`
	TotalCount int          `json:"totalCount"`
	MatchCount int          `json:"matchCount"`
	Current    *StatusItem  `json:"current"`
	Matches    []StatusItem `json:"matches"`
	Selected   []StatusItem `json:"selected"`
}

type StatusItem struct {
	Index int    `json:"index"`
	Text  string `json:"text"`
}

type SessionCfg struct {
	Args     []string
	Input    []byte   // written to a file and fed through cat (nil + NoStdin: stdin is the tty)
	InputCmd string   // alternative: shell command producing the input (e.g. reading a FIFO)
	NoStdin  bool     // leave stdin on the terminal (built-in walker)
	Env      []string // extra environment
	Width    int
	Height   int
	NoListen bool
	Cwd      string
	Bin      string
	AsNobody bool // run fzf as the unprivileged user "nobody" (setpriv), e.g. to meet unreadable directories
}

type Session struct {
	t      fataler
	Name   string
	Dir    string
	Port   int
	Pid    int
	Tag    string
	cfg    SessionCfg
	closed bool
}

func shQuote(s string) string { return "'" + strings.ReplaceAll(s, "'", `'\''`) + "'" }

// StartSession launches fzf in a new tmux session and waits until the
// listener answers.
func StartSession(t fataler, cfg SessionCfg) *Session {
	ensureServer(t)
	sessSeq++
	s := &Session{t: t, cfg: cfg}
	s.Name = fmt.Sprintf("s%d", sessSeq)
	s.Tag = fmt.Sprintf("%s-%d-%d", tmuxSock, sessSeq, time.Now().UnixNano()%1000000)
	s.Dir = filepath.Join(workDir, "sessions", s.Name)
	os.RemoveAll(s.Dir)
	if err := os.MkdirAll(filepath.Join(s.Dir, "tmp"), 0o755); err != nil {
		infra(t, "mkdir: %v", err)
	}
	if cfg.Width == 0 {
		cfg.Width = 80
	}
	if cfg.Height == 0 {
		cfg.Height = 24
	}
	bin := fzfBin
	if cfg.Bin != "" {
		bin = cfg.Bin
	}
	if cfg.AsNobody {
		// the session directory receives the port file written by fzf
		os.Chmod(s.Dir, 0o777)
		os.Chmod(filepath.Join(s.Dir, "tmp"), 0o777)
		wrapper := filepath.Join(s.Dir, "as-nobody.sh")
		os.WriteFile(wrapper, []byte("#!/bin/sh\nexec setpriv --reuid=65534 --regid=65534 --clear-groups "+shQuote(bin)+" \"$@\"\n"), 0o755)
		bin = wrapper
	}
	args := append([]string{}, cfg.Args...)
	if !cfg.NoListen {
		args = append(args, "--listen", "127.0.0.1:0", "--bind", "start:+execute-silent(echo $FZF_PORT > "+shQuote(filepath.Join(s.Dir, "port.tmp"))+"; mv "+shQuote(filepath.Join(s.Dir, "port.tmp"))+" "+shQuote(filepath.Join(s.Dir, "port"))+")")
	}
	var qargs []string
	for _, a := range args {
		qargs = append(qargs, shQuote(a))
	}
	feed := ""
	if cfg.InputCmd != "" {
		feed = cfg.InputCmd + " | "
	} else if !cfg.NoStdin {
		if err := os.WriteFile(filepath.Join(s.Dir, "input"), cfg.Input, 0o644); err != nil {
			infra(t, "write input: %v", err)
		}
		feed = "cat " + shQuote(filepath.Join(s.Dir, "input")) + " | "
	}
	cwd := s.Dir
	if cfg.Cwd != "" {
		cwd = cfg.Cwd
	}
	envs := []string{"VERIF_TAG=" + s.Tag, "TMPDIR=" + filepath.Join(s.Dir, "tmp"), "SHELL=/bin/sh", "FZF_DEFAULT_OPTS=", "FZF_DEFAULT_COMMAND=", "FZF_DEFAULT_OPTS_FILE=", "FZF_API_KEY="}
	envs = append(envs, cfg.Env...)
	var envStr []string
	for _, e := range envs {
		k, v, _ := strings.Cut(e, "=")
		envStr = append(envStr, k+"="+shQuote(v))
	}
	// exec keeps the pid written to the file; the pane stays alive afterwards so that
	// the terminal state left behind can be inspected.
	script := fmt.Sprintf("cd %s && stty -g > %s; %s env %s sh -c 'echo $$ > %s; exec \"$0\" \"$@\"' %s %s > %s 2> %s; echo $? > %s; stty -g > %s; exec sleep 1000000",
		shQuote(cwd), shQuote(filepath.Join(s.Dir, "stty.before")), feed, strings.Join(envStr, " "), shQuote(filepath.Join(s.Dir, "pid")), shQuote(bin), strings.Join(qargs, " "),
		shQuote(filepath.Join(s.Dir, "stdout")), shQuote(filepath.Join(s.Dir, "stderr")), shQuote(filepath.Join(s.Dir, "status")), shQuote(filepath.Join(s.Dir, "stty.after")))
	os.WriteFile(filepath.Join(s.Dir, "script.sh"), []byte(script), 0o755)
	if out, err := tmux("new-session", "-d", "-s", s.Name, "-x", strconv.Itoa(cfg.Width), "-y", strconv.Itoa(cfg.Height), "sh "+shQuote(filepath.Join(s.Dir, "script.sh"))); err != nil {
		infra(t, "tmux new-session: %v %s", err, out)
	}
	tmux("pipe-pane", "-t", s.Name, "-o", "cat >> "+shQuote(filepath.Join(s.Dir, "rawlog")))
	// wait for the pid, then for the port
	deadline := time.Now().Add(20 * time.Second)
	for time.Now().Before(deadline) {
		if b, err := os.ReadFile(filepath.Join(s.Dir, "pid")); err == nil && len(bytes.TrimSpace(b)) > 0 {
			s.Pid, _ = strconv.Atoi(strings.TrimSpace(string(b)))
			break
		}
		time.Sleep(2 * time.Millisecond)
	}
	if s.Pid == 0 {
		s.Close()
		infra(t, "fzf did not start (no pid file)")
	}
	if cfg.NoListen {
		return s
	}
	for time.Now().Before(deadline) {
		if b, err := os.ReadFile(filepath.Join(s.Dir, "port")); err == nil && len(bytes.TrimSpace(b)) > 0 {
			s.Port, _ = strconv.Atoi(strings.TrimSpace(string(b)))
			break
		}
		if _, ok := s.ExitStatus(); ok {
			return s // exited before listening (option error, --select-1 ...)
		}
		time.Sleep(2 * time.Millisecond)
	}
	if s.Port == 0 {
		if _, ok := s.ExitStatus(); !ok {
			scr := s.Capture()
			s.Close()
			infra(t, "fzf did not report its listen port within 20 s; screen:\n%s", strings.Join(scr, "\n"))
		}
	}
	return s
}

// ExitStatus returns the exit status once fzf has ended.
func (s *Session) ExitStatus() (int, bool) {
	b, err := os.ReadFile(filepath.Join(s.Dir, "status"))
	if err != nil || len(bytes.TrimSpace(b)) == 0 {
		return 0, false
	}
	n, err := strconv.Atoi(strings.TrimSpace(string(b)))
	return n, err == nil
}

func (s *Session) WaitExit(d time.Duration) (int, bool) {
	deadline := time.Now().Add(d)
	for {
		if st, ok := s.ExitStatus(); ok {
			return st, true
		}
		if time.Now().After(deadline) {
			return 0, false
		}
		time.Sleep(3 * time.Millisecond)
	}
}

func (s *Session) Stdout() []byte {
	b, _ := os.ReadFile(filepath.Join(s.Dir, "stdout"))
	return b
}

func (s *Session) Stderr() []byte {
	b, _ := os.ReadFile(filepath.Join(s.Dir, "stderr"))
	return b
}

func (s *Session) Alive() bool {
	if s.Pid == 0 {
		return false
	}
	if _, ok := s.ExitStatus(); ok {
		return false
	}
	return syscall.Kill(s.Pid, 0) == nil
}

// cpuTicks returns utime+stime of the fzf process (all threads).
func (s *Session) cpuTicks() int64 {
	b, err := os.ReadFile(fmt.Sprintf("/proc/%d/stat", s.Pid))
	if err != nil {
		return -1
	}
	i := bytes.LastIndexByte(b, ')')
	f := strings.Fields(string(b[i+1:]))
	if len(f) < 13 {
		return -1
	}
	u, _ := strconv.ParseInt(f[11], 10, 64)
	st, _ := strconv.ParseInt(f[12], 10, 64)
	return u + st
}

// rawHTTP sends one request and returns the whole answer (the server closes the connection).
func (s *Session) rawHTTP(req string, timeout time.Duration) (string, error) {
	conn, err := net.DialTimeout("tcp", fmt.Sprintf("127.0.0.1:%d", s.Port), timeout)
	if err != nil {
		return "", err
	}
	defer conn.Close()
	conn.SetDeadline(time.Now().Add(timeout))
	if _, err := conn.Write([]byte(req)); err != nil {
		return "", err
	}
	var buf bytes.Buffer
	r := bufio.NewReader(conn)
	tmp := make([]byte, 65536)
	for {
		n, err := r.Read(tmp)
		buf.Write(tmp[:n])
		if err != nil {
			break
		}
	}
	return buf.String(), nil
}

// Post sends an action list; the answer is the HTTP status code.
func (s *Session) Post(actions string) (int, error) {
	req := fmt.Sprintf("POST / HTTP/1.1\r\nHost: localhost\r\nContent-Length: %d\r\n\r\n%s", len(actions), actions)
	var lastErr error
	for attempt := 0; attempt < 3; attempt++ {
		resp, err := s.rawHTTP(req, 10*time.Second)
		if err != nil {
			lastErr = err
			time.Sleep(20 * time.Millisecond)
			continue
		}
		if len(resp) < 12 {
			lastErr = fmt.Errorf("short answer %q", resp)
			continue
		}
		code, _ := strconv.Atoi(resp[9:12])
		return code, nil
	}
	return 0, lastErr
}

func (s *Session) Get(limit, offset int) (*Status, error) {
	req := fmt.Sprintf("GET /?limit=%d&offset=%d HTTP/1.1\r\nHost: localhost\r\n\r\n", limit, offset)
	resp, err := s.rawHTTP(req, 10*time.Second)
	if err != nil {
		return nil, err
	}
	_, body, ok := strings.Cut(resp, "\r\n\r\n")
	if !ok || !strings.HasPrefix(resp, "HTTP/1.1 200") {
		return nil, fmt.Errorf("GET answered %q", firstLine(resp))
	}
	var st Status
	if err := json.Unmarshal([]byte(body), &st); err != nil {
		return nil, fmt.Errorf("bad state JSON: %v (%q)", err, body)
	}
	return &st, nil
}

func firstLine(s string) string {
	if i := strings.IndexAny(s, "\r\n"); i >= 0 {
		return s[:i]
	}
	return s
}

// WaitFor polls GET until pred holds. The verdict is the state, not the time:
// it keeps waiting while the process is still consuming CPU (up to hardCap) and
// gives up only on a state that stays wrong while the process is idle.
func (s *Session) WaitFor(limit int, pred func(*Status) bool) (*Status, bool) {
	start := time.Now()
	var last *Status
	lastJSON := ""
	// window over which idleness is judged
	winStart := time.Now()
	winTicks := s.cpuTicks()
	winJSON := ""
	idleWindows := 0
	polls := 0
	for {
		st, err := s.Get(limit, 0)
		polls++
		if err == nil {
			last = st
			if pred(st) {
				return st, true
			}
			b, _ := json.Marshal(st)
			lastJSON = string(b)
		}
		if !s.Alive() {
			return last, false
		}
		if time.Since(winStart) >= time.Second {
			ticks := s.cpuTicks()
			busy := ticks-winTicks > 3 || lastJSON != winJSON || (last != nil && last.Reading)
			if busy {
				idleWindows = 0
			} else {
				idleWindows++
			}
			winStart, winTicks, winJSON = time.Now(), ticks, lastJSON
			if idleWindows >= 3 {
				return last, false // wrong and stable while the process is idle
			}
		}
		if time.Since(start) > 90*time.Second {
			return last, false
		}
		// poll quickly at first, then gently so that the polling itself does not keep fzf busy
		if polls < 100 {
			time.Sleep(2 * time.Millisecond)
		} else {
			time.Sleep(100 * time.Millisecond)
		}
	}
}

func (s *Session) SendKeys(keys ...string) {
	tmux(append([]string{"send-keys", "-t", s.Name}, keys...)...)
}

// SendLiteral types text literally.
// Drain waits until every action POSTed so far has been executed: posted
// actions are queued and executed in order, so a marker action at the end of
// the queue tells when the queue is empty. Needed before switching to
// keyboard input, which reaches fzf through another channel (the two are not
// ordered with respect to each other).
func (s *Session) Drain() bool {
	syncSeq++
	marker := filepath.Join(s.Dir, fmt.Sprintf("drained-%d", syncSeq))
	if code, err := s.Post("execute-silent(touch " + shQuote(marker) + ")"); err != nil || code != 200 {
		return false
	}
	deadline := time.Now().Add(20 * time.Second)
	for time.Now().Before(deadline) {
		if _, err := os.Stat(marker); err == nil {
			os.Remove(marker)
			return true
		}
		if !s.Alive() {
			return false
		}
		time.Sleep(3 * time.Millisecond)
	}
	return false
}

var syncSeq int

func (s *Session) SendLiteral(text string) {
	s.SendHex([]byte(text))
}

// SendHex writes raw bytes to the pane's input.
func (s *Session) SendHex(b []byte) {
	args := []string{"send-keys", "-t", s.Name, "-H"}
	for _, c := range b {
		args = append(args, fmt.Sprintf("%02x", c))
	}
	tmux(args...)
}

func (s *Session) Resize(w, h int) {
	tmux("resize-window", "-t", s.Name, "-x", strconv.Itoa(w), "-y", strconv.Itoa(h))
}

func (s *Session) Capture() []string {
	out, _ := tmux("capture-pane", "-p", "-t", s.Name)
	return strings.Split(out, "\n")
}

func (s *Session) Display(format string) string {
	out, _ := tmux("display-message", "-p", "-t", s.Name, format)
	return out
}

func (s *Session) Signal(sig syscall.Signal) {
	if s.Pid > 0 {
		syscall.Kill(s.Pid, sig)
	}
}

// TaggedProcesses lists live processes that carry this session's VERIF_TAG
// (children started by fzf inherit it), except the pane's own shell and sleep.
func (s *Session) TaggedProcesses() []string {
	var out []string
	ents, _ := os.ReadDir("/proc")
	needle := []byte("VERIF_TAG=" + s.Tag)
	for _, e := range ents {
		pid, err := strconv.Atoi(e.Name())
		if err != nil {
			continue
		}
		env, err := os.ReadFile(fmt.Sprintf("/proc/%d/environ", pid))
		if err != nil || !bytes.Contains(env, needle) {
			continue
		}
		cmdline, _ := os.ReadFile(fmt.Sprintf("/proc/%d/cmdline", pid))
		stat, _ := os.ReadFile(fmt.Sprintf("/proc/%d/stat", pid))
		if i := bytes.LastIndexByte(stat, ')'); i >= 0 && len(stat) > i+2 && stat[i+2] == 'Z' {
			continue // zombie waiting to be reaped is not a running process
		}
		out = append(out, fmt.Sprintf("%d:%s", pid, strings.ReplaceAll(strings.TrimRight(string(cmdline), "\x00"), "\x00", " ")))
	}
	return out
}

func (s *Session) TempFiles() []string {
	var out []string
	ents, _ := os.ReadDir(filepath.Join(s.Dir, "tmp"))
	for _, e := range ents {
		out = append(out, e.Name())
	}
	return out
}

func (s *Session) Close() {
	if s.closed {
		return
	}
	s.closed = true
	if s.Pid > 0 {
		syscall.Kill(s.Pid, syscall.SIGKILL)
	}
	// kill everything that carries the tag (children of fzf)
	for _, p := range s.TaggedProcesses() {
		pid, _ := strconv.Atoi(strings.SplitN(p, ":", 2)[0])
		if pid > 0 {
			syscall.Kill(pid, syscall.SIGKILL)
		}
	}
	tmux("kill-session", "-t", s.Name)
}

// GoroutineDump asks a hung fzf for its goroutine stacks (SIGQUIT makes the Go
// runtime print them to stderr) and returns the interesting part.
func (s *Session) GoroutineDump() string {
	if !s.Alive() {
		return "(process is gone)"
	}
	syscall.Kill(s.Pid, syscall.SIGQUIT)
	time.Sleep(500 * time.Millisecond)
	out := string(s.Stderr())
	if i := strings.Index(out, "SIGQUIT"); i >= 0 {
		out = out[i:]
	}
	// keep the goroutine headers and the frames inside fzf
	var keep []string
	lines := strings.Split(out, "\n")
	for i, l := range lines {
		if strings.HasPrefix(l, "goroutine ") {
			keep = append(keep, l)
		} else if strings.Contains(l, "github.com/junegunn/fzf/") && !strings.HasPrefix(l, "\t") {
			loc := ""
			if i+1 < len(lines) {
				loc = strings.TrimSpace(lines[i+1])
				if j := strings.Index(loc, " +0x"); j >= 0 {
					loc = loc[:j]
				}
			}
			if j := strings.Index(l, "("); j >= 0 {
				l = l[:j]
			}
			keep = append(keep, "    "+l+"  "+loc)
		}
	}
	out = strings.Join(keep, "\n")
	if len(out) > 20000 {
		out = out[:20000] + "\n...(truncated)"
	}
	return out
}

// panicText looks for a Go panic trace on the screen or in stderr.
func (s *Session) panicText() string {
	for _, src := range []string{string(s.Stderr()), strings.Join(s.Capture(), "\n")} {
		if strings.Contains(src, "panic:") || strings.Contains(src, "goroutine 1 [") || strings.Contains(src, "fatal error:") || strings.Contains(src, "runtime error") {
			return src
		}
	}
	return ""
}

// runFilter runs `fzf --filter` as a plain process (no tty needed).
// instalments hands out its pieces one Read at a time with a pause in between, so that the
// process on the other end of the pipe sees the input arrive in several steps.
type instalments struct {
	pieces [][]byte
	pause  time.Duration
	next   int
}

func (r *instalments) Read(p []byte) (int, error) {
	for r.next < len(r.pieces) && len(r.pieces[r.next]) == 0 {
		r.next++
	}
	if r.next >= len(r.pieces) {
		return 0, io.EOF
	}
	if r.next > 0 {
		time.Sleep(r.pause)
	}
	n := copy(p, r.pieces[r.next])
	r.pieces[r.next] = r.pieces[r.next][n:]
	return n, nil
}

func runFilterProc(t fataler, args []string, input []byte, env []string) (stdout []byte, status int) {
	return runFilterProcFrom(t, args, bytes.NewReader(input), env)
}

func runFilterProcFrom(t fataler, args []string, input io.Reader, env []string) (stdout []byte, status int) {
	cmd := exec.Command(fzfBin, args...)
	cmd.Stdin = input
	cmd.Env = append([]string{"PATH=/usr/bin:/bin", "SHELL=/bin/sh", "TERM=xterm"}, env...)
	var out, errb bytes.Buffer
	cmd.Stdout, cmd.Stderr = &out, &errb
	err := cmd.Run()
	if err != nil {
		if ee, ok := err.(*exec.ExitError); ok {
			return out.Bytes(), ee.ExitCode()
		}
		infra(t, "cannot run fzf: %v", err)
	}
	return out.Bytes(), 0
}

func jsonUnmarshal(b []byte, v interface{}) error { return json.Unmarshal(b, v) }
