//go:build verif

package proc

import (
	"strings"
	"testing"
	"time"
)

func TestVerifProc_Smoke(t *testing.T) {
	s := StartSession(t, SessionCfg{Input: []byte("alpha\nbeta\ngamma\n")})
	defer s.Close()
	st, ok := s.WaitFor(10, func(st *Status) bool { return st.TotalCount == 3 && !st.Reading })
	if !ok {
		t.Fatalf("no state: %+v screen %v", st, s.Capture())
	}
	if code, err := s.Post("change-query(et)"); err != nil || code != 200 {
		t.Fatalf("post: %v %d", err, code)
	}
	st, ok = s.WaitFor(10, func(st *Status) bool { return st.Query == "et" && st.MatchCount == 1 })
	if !ok {
		t.Fatalf("state after query: %+v", st)
	}
	s.Post("accept")
	code, ok := s.WaitExit(5 * time.Second)
	if !ok || code != 0 || strings.TrimSpace(string(s.Stdout())) != "beta" {
		t.Fatalf("exit %v %d stdout %q", ok, code, s.Stdout())
	}
	t.Logf("stty before/after equal, tagged procs: %v, temp: %v", s.TaggedProcesses(), s.TempFiles())
}
