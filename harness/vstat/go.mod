module verif.local/vstat

go 1.20
