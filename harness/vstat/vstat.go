// Package vstat counts and classifies the cases a verification harness
// actually executed, and writes them out so that the check driver can build
// the evidence file from measured numbers.
//
// Every harness calls Case(...) once per executed case. A case is identified
// by a key string (hashed); it is non-trivial according to the rule of the
// check (the harness decides and passes the boolean). Labels describe the
// generator distribution.
package vstat

import (
	"encoding/binary"
	"encoding/json"
	"fmt"
	"hash/fnv"
	"os"
	"path/filepath"
	"sort"
	"strings"
	"sync"
)

const maxDistinct = 1 << 17
const maxSamples = 8

type knownHit struct {
	Count   int64  `json:"count"`
	Example string `json:"example"`
}

type unit struct {
	Evaluations int64                `json:"evaluations"`
	Nontrivial  int64                `json:"nontrivial"`
	Distinct    int                  `json:"distinct_nontrivial"`
	Capped      bool                 `json:"distinct_capped"`
	Labels      map[string]int64     `json:"labels"`
	Samples     []json.RawMessage    `json:"samples"`
	Known       map[string]*knownHit `json:"known"`
	Excluded    int64                `json:"excluded_by_known_findings"`
	Exhaustive  bool                 `json:"exhaustive"`
	Notes       []string             `json:"notes,omitempty"`
	KeySamples  []string             `json:"key_samples,omitempty"`

	hashes map[uint64]struct{}
	seenNT int64
}

var (
	mu     sync.Mutex
	units  = map[string]*unit{}
	active map[string]bool
)

func get(check string) *unit {
	u := units[check]
	if u == nil {
		u = &unit{Labels: map[string]int64{}, Known: map[string]*knownHit{}, hashes: map[uint64]struct{}{}}
		units[check] = u
	}
	return u
}

func hash(s string) uint64 {
	h := fnv.New64a()
	h.Write([]byte(s))
	return h.Sum64()
}

// Case records one executed case. key identifies it (distinctness);
// nontrivial is the verdict of the check's non-triviality rule.
func Case(check string, key string, nontrivial bool, labels ...string) {
	mu.Lock()
	defer mu.Unlock()
	u := get(check)
	u.Evaluations++
	for _, l := range labels {
		if l != "" {
			u.Labels[l]++
		}
	}
	if nontrivial {
		u.Nontrivial++
		if len(u.KeySamples) < 3 {
			k := key
			if len(k) > 400 {
				k = k[:400] + "…"
			}
			u.KeySamples = append(u.KeySamples, k)
		}
		if len(u.hashes) < maxDistinct {
			u.hashes[hash(key)] = struct{}{}
		} else {
			u.Capped = true
		}
	}
}

// Label adds to the label histogram without counting a case.
func Label(check string, labels ...string) {
	mu.Lock()
	defer mu.Unlock()
	u := get(check)
	for _, l := range labels {
		if l != "" {
			u.Labels[l]++
		}
	}
}

// WantSample tells whether the next non-trivial case should be written out
// (first few, then at powers of two), so that harnesses can avoid formatting
// every case.
func WantSample(check string) bool {
	mu.Lock()
	defer mu.Unlock()
	u := get(check)
	u.seenNT++
	n := u.seenNT
	if n <= 3 {
		return true
	}
	return n&(n-1) == 0
}

// Sample stores a case verbatim (JSON-encodable value).
func Sample(check string, v interface{}) {
	b, err := json.Marshal(v)
	if err != nil {
		b, _ = json.Marshal(fmt.Sprintf("%+v", v))
	}
	if len(b) > 4000 {
		b, _ = json.Marshal(string(b[:4000]) + "…(truncated)")
	}
	mu.Lock()
	defer mu.Unlock()
	u := get(check)
	if len(u.Samples) < maxSamples {
		u.Samples = append(u.Samples, b)
	} else {
		// keep the first three, rotate the rest
		copy(u.Samples[3:], u.Samples[4:])
		u.Samples[maxSamples-1] = b
	}
}

// Exhaustive marks that a finite sub-domain was enumerated completely.
func Exhaustive(check string, note string) {
	mu.Lock()
	defer mu.Unlock()
	u := get(check)
	u.Exhaustive = true
	u.Notes = append(u.Notes, note)
}

func Note(check string, note string) {
	mu.Lock()
	defer mu.Unlock()
	u := get(check)
	u.Notes = append(u.Notes, note)
}

func loadActive() {
	if active != nil {
		return
	}
	active = map[string]bool{}
	for _, k := range strings.Split(os.Getenv("VERIF_KNOWN"), ",") {
		if k != "" {
			active[k] = true
		}
	}
}

// KnownActive tells whether a known-finding key is listed (as "known:") in
// KNOWN_FINDINGS.txt; the driver passes the active keys in VERIF_KNOWN.
func KnownActive(key string) bool {
	mu.Lock()
	defer mu.Unlock()
	loadActive()
	return active[key]
}

// Known records a failing case that the classifier of an active known
// finding recognised. It returns false when the key is not active: the
// caller must then report the failure as a violation.
func Known(check string, key string, detail string) bool {
	mu.Lock()
	defer mu.Unlock()
	loadActive()
	if !active[key] {
		return false
	}
	u := get(check)
	k := u.Known[key]
	if k == nil {
		k = &knownHit{Example: detail}
		u.Known[key] = k
	}
	k.Count++
	u.Excluded++
	return true
}

// Tier returns "quick" or "thorough".
func Tier() string {
	if os.Getenv("VERIF_TIER") == "thorough" {
		return "thorough"
	}
	return "quick"
}

// Flush writes all units to $VERIF_STATS_DIR/stats-<pid>.json (+ .hashes).
func Flush() {
	mu.Lock()
	defer mu.Unlock()
	dir := os.Getenv("VERIF_STATS_DIR")
	if dir == "" {
		return
	}
	os.MkdirAll(dir, 0o755)
	for name, u := range units {
		u.Distinct = len(u.hashes)
		base := filepath.Join(dir, fmt.Sprintf("stats-%s-%d", sanitize(name), os.Getpid()))
		out := map[string]interface{}{"check": name, "unit": u}
		b, _ := json.Marshal(out)
		os.WriteFile(base+".json", b, 0o644)
		hs := make([]uint64, 0, len(u.hashes))
		for h := range u.hashes {
			hs = append(hs, h)
		}
		sort.Slice(hs, func(i, j int) bool { return hs[i] < hs[j] })
		buf := make([]byte, 8*len(hs))
		for i, h := range hs {
			binary.LittleEndian.PutUint64(buf[8*i:], h)
		}
		os.WriteFile(base+".hashes", buf, 0o644)
	}
}

func sanitize(s string) string {
	return strings.Map(func(r rune) rune {
		if r >= 'a' && r <= 'z' || r >= 'A' && r <= 'Z' || r >= '0' && r <= '9' || r == '-' || r == '_' {
			return r
		}
		return '_'
	}, s)
}
