#!/bin/bash
# MANIFEST.setup_cmd: build every harness once from files on disk (offline) so that
# the Go build cache is warm. Nothing is fetched.
set -u
cd "$(dirname "$0")"
export GOFLAGS=-mod=mod GOPROXY=off GOSUMDB=off GOTOOLCHAIN=local
mkdir -p build work evidence replays
./check --warm
