#!/usr/bin/env python3
"""Regenerates /verif/MANIFEST.json from harness/checks_conf.py and harness/manifest_meta.py."""
import json, os, sys
ROOT = os.path.dirname(os.path.dirname(os.path.abspath(__file__)))
sys.path.insert(0, os.path.join(ROOT, 'harness'))
import checks_conf, manifest_meta

props = [json.loads(l) for l in open(os.path.join(ROOT, 'properties.jsonl'))]
checks, na = [], []
for p in props:
    pid = p['id']
    if pid in checks_conf.CHECKS and pid in manifest_meta.META:
        m = manifest_meta.META[pid]
        checks.append({
            'property_id': pid,
            'quick_cmd': 'VERIF_TIER=quick ./check %s' % pid,
            'thorough_cmd': 'VERIF_TIER=thorough ./check %s' % pid,
            'evidence_file': 'evidence/%s.json' % pid,
            'replay_cmd_template': './check %s --replay {path}' % pid,
            'engine': m['engine'],
            'level_claimed': {'category': 'exploration', 'text': m['level_text'], 'design_ref': m['design_ref']},
            'level_note': m['level_note'],
            'technique': m['technique'],
        })
    else:
        na.append({'property_id': pid, 'reason': manifest_meta.NOT_YET.get(pid, 'check not built yet (work in progress); see DESIGN.md for the planned harness')})
man = {
    'version': 1,
    'setup_cmd': './setup.sh',
    'hooks': manifest_meta.HOOKS,
    'engines': manifest_meta.ENGINES,
    'checks': checks,
    'notes': manifest_meta.NOTES,
    'not_applicable': na,
}
json.dump(man, open(os.path.join(ROOT, 'MANIFEST.json'), 'w'), indent=1)
print('claimed:', [c['property_id'] for c in checks])
print('not applicable:', [c['property_id'] for c in na])
