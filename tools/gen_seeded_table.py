#!/usr/bin/env python3
"""Rewrites the table of seeded changes in DESIGN.md (between the markers) from seeded/*/meta.json."""
import json, glob, os, re
root = os.path.dirname(os.path.dirname(os.path.abspath(__file__)))
rows = []
for m in sorted(glob.glob(os.path.join(root, 'seeded', '*', 'meta.json')), key=lambda p: (json.load(open(p))['property'], p)):
    d = json.load(open(m))
    name = os.path.basename(os.path.dirname(m))
    det = ', '.join(x.replace('TestVerif', '').replace('FuzzVerif', 'Fuzz ').replace(d['property'] + '_', d['property'] + ' ') for x in d.get('detected_by', [])) or '-'
    first = 'yes'
    if d.get('missed_initially'):
        first = '**no** -> ' + d.get('strengthened', '').replace('|', '/').replace('\n', ' ')
    if d.get('obsolete'):
        first += ' (obsolete: ' + d['obsolete'].split(' - ')[0] + ')'
    rows.append('| %s | %s | %s | %s | %s |' % (name, d['property'], d.get('needs', '').replace('|', '/'), det, first))
table = ['| seeded change | property | needs | caught by | first run |', '|---|---|---|---|---|'] + rows
s = open(os.path.join(root, 'DESIGN.md')).read()
a, b = '<!-- seeded-table-begin -->', '<!-- seeded-table-end -->'
if a not in s:
    # first use: replace the hand-written table
    i = s.index('| seeded change | property | needs | caught by | first run |')
    j = s.index('\n\n', i)
    s = s[:i] + a + '\n' + b + s[j:]
i, j = s.index(a), s.index(b)
s = s[:i] + a + '\n' + '\n'.join(table) + '\n' + s[j:]
n = len(rows); missed = sum(1 for r in rows if '**no**' in r)
s = re.sub(r'\d+ changes were written by independent sub-agents', '%d changes were written by independent sub-agents' % n, s)
open(os.path.join(root, 'DESIGN.md'), 'w').write(s)
print(n, 'seeded changes,', missed, 'missed at first')
