#!/bin/bash
# Sensitivity run: copy /repo at a given revision (default: working tree) to a scratch
# directory outside /repo and /verif, optionally apply a patch, run a check against it,
# remove the copy.   usage: tools/mutant_run.sh <patch-file|-> <rev|-> <ID> [check args...]
set -u
patch="$1"; rev="$2"; id="$3"; shift 3
d=$(mktemp -d /tmp/verif-mut.XXXXXX)
trap 'rm -rf "$d"' EXIT
if [ "$rev" = "-" ]; then
  rsync -a --exclude .git /repo/ "$d/"
else
  git -C /repo archive "$rev" | tar -x -C "$d"
fi
if [ "$patch" != "-" ]; then
  (cd "$d" && patch -p1 --quiet < "$patch") || { echo "patch failed"; exit 3; }
fi
here="$(cd "$(dirname "$0")/.." && pwd)"   # the tree this script belongs to (a snapshot has its own work directory)
VERIF_REPO="$d" "$here/check" "$id" "$@"
rc=$?
echo "mutant_run: exit $rc"
exit $rc
