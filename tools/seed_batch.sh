#!/bin/bash
# usage: tools/seed_batch.sh <suffix> <ID>...   - verifies /tmp/wt-<ID><suffix> + /tmp/demo-<ID><suffix> one after the other
# (seed_verify.sh into seeded/<ID><suffix>-tmp, then the script demo - if any - in the worktree in both states)
suffix="$1"; shift
export GOFLAGS=-mod=mod GOPROXY=off GOSUMDB=off GOTOOLCHAIN=local
for id in "$@"; do
  n=$id$suffix
  echo "=== $n"
  [ -f /tmp/demo-$n/patch.diff ] || { echo "no patch.diff"; continue; }
  "$(dirname "$0")"/seed_verify.sh $id $n-tmp /tmp/wt-$n /tmp/demo-$n 2>&1 | grep -E "SEED: (demo|pinned|patch|does)|^VIOLATION|-> |SEED: check exit" | cut -c1-170
  demo=""; [ -f /tmp/demo-$n/demo.sh ] && demo="bash /tmp/demo-$n/demo.sh"; [ -f /tmp/demo-$n/demo.py ] && demo="python3 /tmp/demo-$n/demo.py"
  if [ -n "$demo" ]; then
    ( cd /tmp/wt-$n && git checkout -q -- . && git apply /tmp/demo-$n/patch.diff && $demo /tmp/wt-$n >/dev/null 2>&1; a=$?; git apply -R /tmp/demo-$n/patch.diff; $demo /tmp/wt-$n >/dev/null 2>&1; b=$?; git apply /tmp/demo-$n/patch.diff; echo "script demo: with rc=$a without rc=$b" )
  fi
done
