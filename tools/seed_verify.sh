#!/bin/bash
# usage: tools/seed_verify.sh <PROP> <name> <worktree> <demodir> [check args...]
# Confirms a seeded change (compiles, pinned tests pass, Go demo fails with / passes without it)
# in a scratch copy of /repo, runs ./check <PROP> against it, and stores it under seeded/<name>/.
set -u
prop="$1"; name="$2"; wt="$3"; demo="$4"; shift 4
export GOFLAGS=-mod=mod GOPROXY=off GOSUMDB=off GOTOOLCHAIN=local
here="$(cd "$(dirname "$0")/.." && pwd)"
out=$here/seeded/$name
mkdir -p "$out"
cp "$demo"/patch.diff "$out"/patch.diff
for f in "$demo"/*; do case "$f" in */fzf|*/fzf-orig|*/fzf-seeded|*.test) ;; *) [ -f "$f" ] && cp "$f" "$out"/ ;; esac; done
d=$(mktemp -d /tmp/verif-seed.XXXXXX)
trap 'rm -rf "$d"' EXIT
rsync -a --exclude .git /repo/ "$d/"
( cd "$d" && patch -p1 --quiet < "$out/patch.diff" ) || { echo "SEED: patch does not apply to current /repo"; exit 3; }
( cd "$d" && go build ./... ) || { echo "SEED: does not compile"; exit 3; }
if ( cd "$d" && go test -vet=off -count=1 ./... >/tmp/seedtest.$$ 2>&1 ); then echo "SEED: pinned tests pass with the change"; else echo "SEED: pinned tests FAIL with the change"; tail -5 /tmp/seedtest.$$; fi
rm -f /tmp/seedtest.$$
# Go demo (if any): fails with, passes without
gd=$(ls "$out"/*_test.go 2>/dev/null | head -1)
if [ -n "$gd" ]; then
  pkgdir=src; grep -q '^package algo' "$gd" && pkgdir=src/algo; grep -q '^package util' "$gd" && pkgdir=src/util; grep -q '^package tui' "$gd" && pkgdir=src/tui
  cp "$gd" "$d/$pkgdir/zz_demo_test.go"
  ( cd "$d" && go test -vet=off -count=1 -run 'Demo|ZZ' ./$pkgdir >/dev/null 2>&1 ) && echo "SEED: demo PASSES with the change (unexpected)" || echo "SEED: demo fails with the change"
  ( cd "$d" && patch -R -p1 --quiet < "$out/patch.diff" && go test -vet=off -count=1 -run 'Demo|ZZ' ./$pkgdir >/dev/null 2>&1 ) && echo "SEED: demo passes without the change" || echo "SEED: demo FAILS without the change (unexpected)"
  ( cd "$d" && patch -p1 --quiet < "$out/patch.diff" ); rm -f "$d/$pkgdir/zz_demo_test.go"
fi
echo "SEED: running ./check $prop against the changed tree"
VERIF_REPO="$d" "$here/check" "$prop" "$@" > "$out/check-output.txt" 2>&1
rc=$?
grep -E "VIOLATION|-> |INCONCLUSIVE" "$out/check-output.txt" | cut -c1-220
{ grep -v "rapid\] draw" "$out/check-output.txt" | cut -c1-400 | head -60; echo "[...]"; grep -E "^VIOLATION|^INCONCLUSIVE| -> (HELD|VIOLATION|INCONCLUSIVE)" "$out/check-output.txt" | cut -c1-300; } > "$out/check-output.short.txt"; mv "$out/check-output.short.txt" "$out/check-output.txt"
echo "SEED: check exit $rc"
exit $rc
