#!/bin/bash
# usage: tools/seeded_sweep.sh [name-regex]  - applies every seeded change to a scratch copy of /repo and runs the quick check
# of its property; prints one line per change (DETECTED / missed). Used to make sure that later edits of the checks did not
# lose a change that was caught before.
cd "$(dirname "$0")/.."
re="${1:-.}"
for d in seeded/*/; do
  n=$(basename $d)
  echo "$n" | grep -Eq "$re" || continue
  p=$(python3 -c "import json;print(json.load(open('$d/meta.json'))['property'])")
  if python3 -c "import json,sys;sys.exit(0 if json.load(open('$d/meta.json')).get('obsolete') else 1)"; then echo "obsolete $n"; continue; fi
  out=$(tools/mutant_run.sh "$(pwd)/$d/patch.diff" - $p 2>&1)
  if echo "$out" | grep -q "^VIOLATION"; then r=DETECTED; elif echo "$out" | grep -q "patch failed"; then r=PATCH-FAILED; else r=missed; fi
  echo "$r $n $(echo "$out" | grep -E ' -> ' | tail -1 | sed 's/.*jobs, //')"
done
