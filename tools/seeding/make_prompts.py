#!/usr/bin/env python3
"""usage: make_prompts.py <suffix> <ID>...   -> /tmp/prompt-<ID><suffix>.txt (worktree /tmp/wt-<ID><suffix>, demo dir /tmp/demo-<ID><suffix>)
The diversity hint lists the earlier seeded changes for the property (their one-line descriptions only)."""
import sys, os, json, glob
here = os.path.dirname(os.path.abspath(__file__))
suffix, ids = sys.argv[1], sys.argv[2:]
rules = open(os.path.join(here, 'rules.txt')).read()
for pid in ids:
    prev = []
    for m in sorted(glob.glob(os.path.join(here, '..', '..', 'seeded', '*', 'meta.json'))):
        d = json.load(open(m))
        if d.get('property') == pid:
            prev.append('- ' + d['change'])
    prop = open(os.path.join(here, 'prop-%s.txt' % pid)).read()
    name = pid + suffix
    hint = ('DIVERSITY HINT: changes of the following kinds have already been written for this property. Do NOT repeat or vary them; '
            'choose a different mechanism AND a different code site (another function, preferably another file), and a different kind of trigger:\n' + '\n'.join(prev))
    text = ('You are given a git worktree of the open-source project junegunn/fzf at /tmp/wt-%s and a demo directory /tmp/demo-%s. '
            'Your job: write ONE realistic, subtle source change that makes fzf violate the following semantic property while the project '
            'still compiles and its existing test suite still passes.\n\n%s\n\n%s\n\n%s' % (name, name, prop, hint, rules.replace('<yourdir>', 'demo-' + name)))
    open('/tmp/prompt-%s.txt' % name, 'w').write(text)
    print(name, len(prev), 'earlier changes')
