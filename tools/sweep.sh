#!/bin/bash
# usage: tools/sweep.sh <tier> "<seeds>" [ids...]   - runs the checks at several seeds and prints one line per run
tier="$1"; seeds="$2"; shift 2
ids="$@"; [ -z "$ids" ] && ids="C01 C02 C03 C04 C05 C06 C07 C08 C09 C10 C11 C12 C13 C14 C15 C16 C17 C18 C19 C20"
cd "$(dirname "$0")/.."
for s in $seeds; do
  for id in $ids; do
    out=$(VERIF_TIER=$tier VERIF_SEED=$s ./check $id 2>&1)
    rc=$?
    echo "$out" | grep -E "^$id tier" | sed "s/^/rc=$rc /"
    if [ $rc -ne 0 ]; then echo "$out" | grep -v "rapid\] draw" | grep -v "^ *$" | cut -c1-400 | tail -40; fi
  done
done
